#!/bin/bash
# MANIFEST.setup_cmd: build the orchestrator and warm the -race build cache, offline.
set -e
cd "$(dirname "$0")"
export GOFLAGS=-mod=mod GOPROXY=off GOSUMDB=off GOTOOLCHAIN=local
mkdir -p bin evidence replays
(cd sim/simctl && go build -o ../../bin/simctl .)
# warm the race-instrumented standard library and dependencies
T=$(mktemp -d)
trap 'rm -rf "$T"' EXIT
mkdir -p "$T/w"
cat > "$T/w/main.go" <<'GO'
package main

import (
	_ "encoding/json"
	_ "flag"
	_ "fmt"
	_ "os/exec"
	_ "sort"
	_ "sync"

	_ "github.com/tidwall/geojson"
)

func main() {}
GO
printf 'module warm\n\ngo 1.18\n\nrequire github.com/tidwall/geojson v0.0.0\n\nreplace github.com/tidwall/geojson => /repo\n' > "$T/w/go.mod"
cp /repo/go.sum "$T/w/go.sum"
(cd "$T/w" && go build -race -trimpath -o "$T/warm" .) || echo "setup: warm-up build failed (checks will build cold)" >&2
# second toolchain used by a slice of the thorough tier
if command -v go1.26.8 >/dev/null 2>&1; then
	(cd "$T/w" && go1.26.8 build -race -trimpath -o "$T/warm2" .) || echo "setup: go1.26.8 warm-up failed (thorough tier will use one toolchain)" >&2
fi
echo "setup ok"
