#!/bin/bash
# Runs ./check C16 (quick) on property-preserving changes written by independent
# sub-agents (<dir>/change*/patch.diff): every one must exit 0.
#   sim/benignall.sh <dir> [seconds] [pattern]
set -u
cd "$(dirname "$0")/.."
export GOFLAGS=-mod=mod GOPROXY=off GOSUMDB=off GOTOOLCHAIN=local
DIR=$(cd "$1" && pwd); SECS=${2:-50}; PAT=${3:-}
(cd sim/simctl && go build -o ../../bin/simctl .) || exit 2
T=$(mktemp -d /tmp/geosim-benign.XXXXXX)
trap 'rm -rf "$T"' EXIT
for d in $(ls -d $DIR/*/ | sort -V); do
	[ -f "$d/patch.diff" ] || continue
	id=$(basename $d)
	case "$id" in *"$PAT"*) ;; *) continue;; esac
	rm -rf "$T/repo" "$T/replays"; mkdir -p "$T/repo" "$T/replays"
	rsync -a --exclude .git /repo/ "$T/repo/"
	(cd "$T/repo" && git apply "$d/patch.diff") || { echo "$id: patch does not apply"; continue; }
	start=$(date +%s)
	bin/simctl check C16 --tier quick --seconds $SECS --repo "$T/repo" --replays "$T/replays" --evidence "$T/ev.json" --verif "$(pwd)" > "$T/log" 2>&1
	rc=$?
	el=$(( $(date +%s) - start ))
	info=$(grep -E "^geosim: [0-9]+ runs" "$T/log" | sed 's/geosim: //' | sed "s/ steps.*wall/ ... wall/" | cut -c1-80)
	extra=$(python3 -c "
import json
try:
    c=json.load(open('$T/ev.json'))['coverage']
    print('controlled=%s fallback=%s stray=%s watchdog=%s wraps=%s locks=%s exprwrap=%s detdiv=%s unc=%d' % (c['controlled'],c['uncontrolled_fallback_runs'],c['stray_goroutine_runs'],c['watchdog_restarts'],c['atomic_ops_wrapped'],c['library_locks_simulated'],c['expression_level_yields'],c['determinism_selftest']['divergences'],len(c['constructs_outside_scheduler'] or [])))
except Exception as e: print('no-evidence',e)
")
	echo "$id exit=$rc ${el}s | $info | $extra"
	if [ $rc -ne 0 ]; then grep -E "VIOLATION|^  |simctl:|  - " "$T/log" | head -12 | cut -c1-300; cp "$T/log" /tmp/benign-$id.log; fi
done
