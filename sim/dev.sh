#!/bin/bash
# Developer helper (not used by the registered checks): rebuilds the worker
# against an instrumented copy of a tree in /tmp/gsdev and runs one batch.
#   sim/dev.sh build [repo-dir]      instrument + build
#   sim/dev.sh batch <seed> <seconds> [tier] [extra worker flags...]
#   sim/dev.sh report                print the aggregate of the last batch
set -e
export GOFLAGS=-mod=mod GOPROXY=off GOSUMDB=off GOTOOLCHAIN=local
V=/verif
D=${GSDEV:-/tmp/gsdev}
case "$1" in
build)
	REPO=${2:-/repo}
	(cd $V/sim/simctl && go build -o $V/bin/simctl .)
	rm -rf $D/copy $D/worker
	mkdir -p $D/out $D/worker
	$V/bin/simctl instrument $REPO $D/copy $V/sim/verifsim
	cp $V/sim/worker/*.go $D/worker/
	cp $REPO/go.sum $D/worker/
	MOD=$(awk '/^module/{print $2}' $REPO/go.mod)
	printf 'module geosimworker\n\ngo 1.18\n\nrequire %s v0.0.0\n\nreplace %s => ../copy\n' $MOD $MOD > $D/worker/go.mod
	(cd $D/worker && go build -race -trimpath -o ../simworker .)
	echo built $D/simworker
	;;
batch)
	SEED=$2; SECS=$3; TIER=${4:-quick}; shift; shift; shift; shift || true
	rm -f $D/out/*
	NS=$(python3 -c "import json;print(max(s['id'] for s in json.load(open('$D/copy/verifsim-sites.json'))['sites'])+1)")
	python3 -c "import json;json.dump(json.load(open('$D/copy/verifsim-sites.json')).get('integer_constants') or [],open('$D/consts.json','w'))"
	python3 -c "import json;json.dump([s['id'] for s in json.load(open('$D/copy/verifsim-sites.json'))['sites'] if s.get('hot')],open('$D/hot.json','w'))"
	GEOSIM_CONSTS=$D/consts.json GEOSIM_HOT=$D/hot.json GOMAXPROCS=1 GORACE="halt_on_error=0 exitcode=0 atexit_sleep_ms=0 history_size=2 log_path=$D/out/race-0" $D/simworker batch -seed $SEED -worker 0 -tier $TIER -seconds $SECS -out $D/out -sites $NS "$@" 2>&1 | cut -c1-700
	$0 report
	;;
report)
	python3 - <<EOF
import json
r=json.load(open('$D/out/worker-0.json'))
for k in ['runs','wall_s','steps','solo_steps','switches','inflight_switches','ops','ops_compared','solo_abnormal','overlap_pairs_same_object','overlap_pairs_any','nontrivial_runs','build_errors','faults_fired','strategies','violation_keys','violation_files','infra','free_runs','stray_runs']:
    print(k, r[k])
print(sum(1 for x in r['site_hits'] if x>0), 'sites hit;', sum(1 for x in r['site_preempt'] if x>0), 'preempted at')
EOF
	;;
esac
