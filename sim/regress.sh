#!/bin/bash
# Full development-time regression of the simulator's detection power and quietness:
# self-test mutants/benign variants, independent benign changes, all seeded changes.
cd "$(dirname "$0")/.."
echo "=== selftest"; sim/selftest/run.sh ${1:-15}
echo "=== independent benign changes"; sim/benignall.sh sim/selftest/benign-independent ${2:-40}
echo "=== seeded changes"; sim/seedall.sh ${3:-50}
