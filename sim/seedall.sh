#!/bin/bash
# Runs ./check C16 (quick tier by default) on every change stored under seeded/
# (each applied to its own scratch copy of /repo) and prints one line per change.
# Development-time regression of detection power; not a registered check.
#   sim/seedall.sh [seconds] [pattern] [tier]
set -u
cd "$(dirname "$0")/.."
export GOFLAGS=-mod=mod GOPROXY=off GOSUMDB=off GOTOOLCHAIN=local
SECS=${1:-50}; PAT=${2:-}; TIER=${3:-quick}
(cd sim/simctl && go build -o ../../bin/simctl .) || exit 2
T=$(mktemp -d /tmp/geosim-seedall.XXXXXX)
trap 'rm -rf "$T"' EXIT
for d in $(ls -d seeded/S* | sort -V); do
	id=$(basename $d)
	case "$id" in *"$PAT"*) ;; *) continue;; esac
	rm -rf "$T/repo" "$T/replays"; mkdir -p "$T/repo" "$T/replays"
	rsync -a --exclude .git /repo/ "$T/repo/"
	(cd "$T/repo" && git apply "$OLDPWD/$d/patch.diff") || { echo "$id: patch does not apply"; continue; }
	start=$(date +%s)
	bin/simctl check C16 --tier $TIER --seconds $SECS --repo "$T/repo" --replays "$T/replays" --evidence "$T/ev.json" --verif "$(pwd)" > "$T/log" 2>&1
	rc=$?
	el=$(( $(date +%s) - start ))
	keys=$(grep -A1 '^VIOLATION' "$T/log" | grep -v '^VIOLATION' | grep -v '^--' | sed 's/^ *//; s/ — .*//' | cut -c1-110 | tr '\n' ';')
	mins=$(grep '^minimise:' "$T/log" | sed 's/.*tests=/tests=/' | tr '\n' ';')
	want=$(python3 -c "import json;print(1 if (lambda m: m.get('detected_$TIER', m.get('detected',True)))(json.load(open('$d/meta.json'))) else 0)" 2>/dev/null || echo 1)
	note=""; [ "$want" = 0 ] && note=" (documented limit: expected exit 0)"
	echo "$id exit=$rc want=$want ${el}s$note | $keys | $mins"
done
