#!/bin/bash
# Steps (1)-(4) of seedtest.sh only (no check run): used to record confirm.log under seeded/<id>/.
set -u
export GOFLAGS=-mod=mod GOPROXY=off GOSUMDB=off GOTOOLCHAIN=local
SRC=$1; PKG=$2; RUN=$3; RACE=${4:-}
W=$(mktemp -d /tmp/confirm.XXXXXX); rmdir $W
git -C /repo worktree add -q --detach $W HEAD || exit 2
trap 'git -C /repo worktree remove --force $W >/dev/null 2>&1' EXIT
DEMO=$(ls $SRC/*_test.go | head -1)
cp $DEMO $W/$PKG/
echo "== (1) demo on the unmodified tree: go test $RACE -vet=off -count=1 -run '$RUN' ."
(cd $W/$PKG && go test $RACE -vet=off -count=1 -run "$RUN" . 2>&1 | tail -3)
rm -f $W/$PKG/$(basename $DEMO)
echo "== git apply patch.diff"
(cd $W && git apply $SRC/patch.diff) || { echo "PATCH DOES NOT APPLY"; exit 2; }
(cd $W && git diff --stat | tail -4)
echo "== (2) go build ./..."; (cd $W && go build ./... && echo build-ok)
echo "== (3) existing suite with the change: go test -vet=off -count=1 ./..."
(cd $W && go test -vet=off -count=1 ./... 2>&1 | tail -4)
echo "== (4) demo with the change"
cp $DEMO $W/$PKG/
(cd $W/$PKG && go test $RACE -vet=off -count=1 -run "$RUN" . 2>&1 | grep -v "^      \|^  [a-z]" | tail -8 | cut -c1-260)
