#!/bin/bash
# How much does detection of the seeded changes depend on VERIF_SEED? (development-time)
cd "$(dirname "$0")/.."
for seed in ${SEEDS:-1 2 3}; do
	echo "=== VERIF_SEED=$seed"
	VERIF_SEED=$seed sim/seedall.sh ${1:-50} "${2:-}" | cut -c1-150
done
