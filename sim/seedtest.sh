#!/bin/bash
# Confirms an independently written breaking change and runs the C16 check on it.
#   sim/seedtest.sh <outdir-of-agent> <demo-pkg-dir-relative> <go-test-run-regex> [check-seconds] [race]
# Steps: fresh worktree of /repo; (1) demo passes on the unmodified tree; apply patch;
# (2) builds; (3) existing suite passes; (4) demo fails; (5) ./check C16 reports a violation.
set -u
export GOFLAGS=-mod=mod GOPROXY=off GOSUMDB=off GOTOOLCHAIN=local
SRC=$1; PKG=$2; RUN=$3; SECS=${4:-50}; RACE=${5:-}
W=$(mktemp -d /tmp/confirm.XXXXXX)
rmdir $W
git -C /repo worktree add -q --detach $W HEAD || exit 2
trap 'git -C /repo worktree remove --force $W >/dev/null 2>&1; rm -rf $W.out' EXIT
mkdir -p $W.out
DEMO=$(ls $SRC/*_test.go | head -1)
cp $DEMO $W/$PKG/
echo "== (1) demo on unmodified tree"
(cd $W/$PKG && go test $RACE -vet=off -count=1 -run "$RUN" . 2>&1 | tail -3)
rm -f $W/$PKG/$(basename $DEMO)
echo "== apply patch"
(cd $W && git apply $SRC/patch.diff) || { echo "PATCH DOES NOT APPLY"; exit 2; }
(cd $W && git diff --stat | tail -3)
echo "== (2) build"; (cd $W && go build ./... && echo build-ok)
echo "== (3) existing suite with the change"
(cd $W && go test -vet=off -count=1 ./... 2>&1 | tail -4)
echo "== (4) demo with the change"
cp $DEMO $W/$PKG/
(cd $W/$PKG && go test $RACE -vet=off -count=1 -run "$RUN" . 2>&1 | tail -6 | cut -c1-220)
rm -f $W/$PKG/$(basename $DEMO)
echo "== (5) ./check C16 --tier quick on the changed tree"
cd /verif
bin/simctl check C16 --tier quick --seconds $SECS --repo $W --replays $W.out/replays --evidence $W.out/ev.json 2>&1 | cut -c1-260
echo "check exit=${PIPESTATUS[0]}"
ls $W.out/replays 2>/dev/null
if [ -n "${KEEPREPLAYS:-}" ]; then mkdir -p $KEEPREPLAYS; cp $W.out/replays/* $KEEPREPLAYS/ 2>/dev/null; fi
