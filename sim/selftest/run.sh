#!/bin/bash
# Development-time self-test of the simulator (not a registered check):
#  - every patch under mutants/ breaks C16 and must be reported (exit 1),
#  - every patch under benign/ keeps C16 and must stay quiet (exit 0), without hanging.
# Usage: sim/selftest/run.sh [seconds-per-case] [pattern]
set -u
cd "$(dirname "$0")/../.."
export GOFLAGS=-mod=mod GOPROXY=off GOSUMDB=off GOTOOLCHAIN=local
SECS=${1:-12}
PAT=${2:-}
(cd sim/simctl && go build -o ../../bin/simctl .) || exit 2
T=$(mktemp -d /tmp/geosim-selftest.XXXXXX)
trap 'rm -rf "$T"' EXIT
fail=0
for f in sim/selftest/mutants/*.diff sim/selftest/benign/*.diff; do
	name=$(basename $f .diff)
	case "$name" in *"$PAT"*) ;; *) continue;; esac
	want=1; case "$f" in */benign/*) want=0;; esac
	rm -rf "$T/repo"; mkdir -p "$T/repo" "$T/replays"
	rsync -a --exclude .git /repo/ "$T/repo/"
	(cd "$T/repo" && git apply "$OLDPWD/$f") || { echo "$name: patch does not apply"; fail=1; continue; }
	start=$(date +%s)
	bin/simctl check C16 --tier quick --seconds $SECS --repo "$T/repo" --replays "$T/replays" --evidence "$T/ev.json" --verif "$(pwd)" > "$T/log" 2>&1
	rc=$?
	el=$(( $(date +%s) - start ))
	keys=$(grep -A1 '^VIOLATION' "$T/log" | grep -v '^VIOLATION' | grep -v '^--' | sed 's/^ *//' | cut -c1-150 | tr '\n' ';')
	mins=$(grep '^minimise:' "$T/log" | sed 's/minimise: //' | cut -c1-160 | tr '\n' ';')
	if [ $rc -eq $want ]; then st=ok; else st=WRONG; fail=1; fi
	echo "$st $name rc=$rc want=$want ${el}s | $keys | $mins"
	if [ $st = WRONG ]; then tail -15 "$T/log"; fi
done
exit $fail
