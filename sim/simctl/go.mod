module simctl

go 1.18
