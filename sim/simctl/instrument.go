package main

import (
	"bytes"
	"encoding/json"
	"fmt"
	"go/ast"
	"go/parser"
	"go/token"
	"io"
	"os"
	"path/filepath"
	"sort"
	"strconv"
	"strings"
)

// Reserved yield-site ids used by the driver itself (not by generated code).
const (
	SiteCallback   = 0
	SiteOpBoundary = 1
	SiteReenter    = 2
	SiteTaskStart  = 3
	firstLibSite   = 8
)

// Site describes one generated yield point.
type Site struct {
	ID   int    `json:"id"`
	File string `json:"file"`
	Line int    `json:"line"`
	Kind string `json:"kind"` // func | funclit | for | range | stmt | atomic
	Func string `json:"func"`
	Hot  bool   `json:"hot,omitempty"` // follows an atomic or lock operation
}

// Construct is a piece of syntax the controlled scheduler cannot own.
type Construct struct {
	File string `json:"file"`
	Line int    `json:"line"`
	What string `json:"what"`
}

// InstrumentReport is what the instrumenter found and did.
type InstrumentReport struct {
	Module       string      `json:"module"`
	Files        int         `json:"files"`
	Sites        []Site      `json:"sites"`
	CritBrackets int         `json:"crit_brackets"`
	ExprWrapping bool        `json:"expr_wrapping"`
	AtomicWraps  int         `json:"atomic_wraps"`
	Constants    []int       `json:"integer_constants"` // harvested from the library source (size dictionary)
	FloatConsts  []float64   `json:"float_constants"`   // floating-point literals (radius / magnitude dictionary)
	SimLocks     int         `json:"simulated_locks"`
	Uncontrolled []Construct `json:"uncontrolled_constructs"`
}

type insertion struct {
	off  int
	text string
	seq  int
}

// copyTree copies the working tree of src to dst (everything except .git).
func copyTree(src, dst string) error {
	return filepath.Walk(src, func(p string, info os.FileInfo, err error) error {
		if err != nil {
			return err
		}
		rel, err := filepath.Rel(src, p)
		if err != nil {
			return err
		}
		if rel == ".git" || strings.HasPrefix(rel, ".git"+string(filepath.Separator)) {
			if info.IsDir() {
				return filepath.SkipDir
			}
			return nil
		}
		target := filepath.Join(dst, rel)
		if info.IsDir() {
			return os.MkdirAll(target, 0o755)
		}
		if !info.Mode().IsRegular() {
			return nil // symlinks, sockets: not part of a Go package build
		}
		in, err := os.Open(p)
		if err != nil {
			return err
		}
		defer in.Close()
		out, err := os.Create(target)
		if err != nil {
			return err
		}
		if _, err := io.Copy(out, in); err != nil {
			out.Close()
			return err
		}
		return out.Close()
	})
}

func readModulePath(dir string) (string, error) {
	b, err := os.ReadFile(filepath.Join(dir, "go.mod"))
	if err != nil {
		return "", err
	}
	for _, ln := range strings.Split(string(b), "\n") {
		ln = strings.TrimSpace(ln)
		if strings.HasPrefix(ln, "module") {
			f := strings.Fields(ln)
			if len(f) >= 2 {
				return strings.Trim(f[1], `"`), nil
			}
		}
	}
	return "", fmt.Errorf("no module line in %s/go.mod", dir)
}

// instrumentTree rewrites every non-test .go file under dir (a scratch copy)
// in place, inserting yield points and no-preempt brackets, and installs the
// verifsim package taken from verifsimSrc.
func instrumentTree(dir, verifsimSrc string, wrapExpr bool) (*InstrumentReport, error) {
	mod, err := readModulePath(dir)
	if err != nil {
		return nil, err
	}
	rep := &InstrumentReport{Module: mod, ExprWrapping: wrapExpr}
	if wrapExpr {
		if err := bumpGoDirective(filepath.Join(dir, "go.mod")); err != nil {
			return nil, err
		}
	}
	var files []string
	err = filepath.Walk(dir, func(p string, info os.FileInfo, err error) error {
		if err != nil {
			return err
		}
		if info.IsDir() {
			name := info.Name()
			if p != dir && (name == "verifsim" || name == "testdata" || name == "vendor" || strings.HasPrefix(name, ".") || strings.HasPrefix(name, "_")) {
				return filepath.SkipDir
			}
			if p != dir {
				if _, err := os.Stat(filepath.Join(p, "go.mod")); err == nil {
					return filepath.SkipDir // a nested module is not part of this build
				}
			}
			return nil
		}
		if strings.HasSuffix(p, ".go") && !strings.HasSuffix(p, "_test.go") {
			files = append(files, p)
		}
		return nil
	})
	if err != nil {
		return nil, err
	}
	sort.Strings(files)
	constSet := map[int]bool{}
	floatSet := map[float64]bool{}
	defer func() {
		for v := range floatSet {
			rep.FloatConsts = append(rep.FloatConsts, v)
		}
		sort.Float64s(rep.FloatConsts)
		for v := range constSet {
			rep.Constants = append(rep.Constants, v)
		}
		sort.Ints(rep.Constants)
	}()
	next := firstLibSite
	for _, p := range files {
		rel, _ := filepath.Rel(dir, p)
		src, err := os.ReadFile(p)
		if err != nil {
			return nil, err
		}
		fset := token.NewFileSet()
		f, err := parser.ParseFile(fset, p, src, parser.ParseComments|parser.SkipObjectResolution)
		if err != nil {
			return nil, fmt.Errorf("parse %s: %v", rel, err)
		}
		if f.Name.Name == "main" {
			continue // commands are not library code
		}
		if isGenerated(f) && false {
			continue
		}
		rep.Files++
		// integer literals of the library: thresholds live among them (64, 256,
		// 1024, ...). The generator places some sizes just below/at/above each.
		ast.Inspect(f, func(n ast.Node) bool {
			switch x := n.(type) {
			case *ast.BasicLit:
				if x.Kind == token.FLOAT {
					if v, err := strconv.ParseFloat(x.Value, 64); err == nil && v >= 1e-3 && v <= 1e9 {
						floatSet[v] = true
					}
				}
				if x.Kind == token.INT {
					if v, err := strconv.ParseInt(x.Value, 0, 64); err == nil && v >= 3 && v <= 20000 {
						constSet[int(v)] = true
					}
				}
			case *ast.BinaryExpr:
				// constant expressions over integer literals: 1 << 16, 4 * 1024, ...
				if v, ok := evalIntExpr(x); ok && v >= 3 && v <= 1<<22 {
					constSet[int(v)] = true
				}
			}
			return true
		})
		var ins []insertion
		seq := 0
		add := func(pos token.Pos, text string) {
			ins = append(ins, insertion{off: fset.Position(pos).Offset, text: text, seq: seq})
			seq++
		}
		site := func(lbrace token.Pos, kind, fn string) {
			id := next
			next++
			rep.Sites = append(rep.Sites, Site{ID: id, File: rel, Line: fset.Position(lbrace).Line, Kind: kind, Func: fn})
			add(lbrace+1, fmt.Sprintf("verifsim.Yield(%d);", id))
		}
		unc := func(pos token.Pos, what string) {
			rep.Uncontrolled = append(rep.Uncontrolled, Construct{File: rel, Line: fset.Position(pos).Line, What: what})
		}
		var fnStack []string
		bodyBlocks := map[*ast.BlockStmt]bool{}
		parents := map[ast.Node]ast.Node{}
		if wrapExpr {
			var st []ast.Node
			ast.Inspect(f, func(n ast.Node) bool {
				if n == nil {
					st = st[:len(st)-1]
					return true
				}
				if len(st) > 0 {
					parents[n] = st[len(st)-1]
				}
				st = append(st, n)
				return true
			})
		}
		curFn := func() string {
			if len(fnStack) == 0 {
				return ""
			}
			return fnStack[len(fnStack)-1]
		}
		// stmtList handles one statement list: a yield point before every
		// statement but the first of a function/loop body (the body-entry
		// yield already sits there), so that any two consecutive statements
		// can be separated by a task switch; plus no-preempt brackets.
		bracketList := func(list []ast.Stmt, bodyEntry bool) {
			for k, st := range list {
				if !(k == 0 && bodyEntry) {
					_, isEmpty := st.(*ast.EmptyStmt)
					_, isCase := st.(*ast.CaseClause)
					_, isComm := st.(*ast.CommClause)
					if !isEmpty && !isCase && !isComm {
						id := next
						next++
						hot := k > 0 && hasSyncCall(list[k-1])
						rep.Sites = append(rep.Sites, Site{ID: id, File: rel, Line: fset.Position(st.Pos()).Line, Kind: "stmt", Func: curFn(), Hot: hot})
						add(st.Pos(), fmt.Sprintf("verifsim.Yield(%d);", id))
					}
				}
				switch s := st.(type) {
				case *ast.ExprStmt:
					call, ok := s.X.(*ast.CallExpr)
					if !ok {
						continue
					}
					sel, ok := call.Fun.(*ast.SelectorExpr)
					if !ok {
						continue
					}
					switch {
					case wrapExpr && (sel.Sel.Name == "Lock" || sel.Sel.Name == "RLock") && len(call.Args) == 0:
						// scheduler-owned blocking: for !mu.TryLock() { verifsim.Blocked(n) }
						id := next
						next++
						rep.Sites = append(rep.Sites, Site{ID: id, File: rel, Line: fset.Position(s.Pos()).Line, Kind: "lock", Func: curFn(), Hot: true})
						add(s.Pos(), "for !")
						add(sel.Sel.Pos(), "Try")
						add(s.End(), fmt.Sprintf("{verifsim.Blocked(%d)}", id))
						rep.SimLocks++
					case wrapExpr && (sel.Sel.Name == "Unlock" || sel.Sel.Name == "RUnlock") && len(call.Args) == 0:
						add(s.End(), ";verifsim.Released()")
					case (sel.Sel.Name == "Lock" || sel.Sel.Name == "RLock") && len(call.Args) == 0:
						add(s.Pos(), "verifsim.Crit(1);")
						rep.CritBrackets++
					case (sel.Sel.Name == "Unlock" || sel.Sel.Name == "RUnlock") && len(call.Args) == 0:
						add(s.End(), ";verifsim.Crit(-1)")
					case sel.Sel.Name == "Do" && len(call.Args) == 1:
						add(s.Pos(), "verifsim.Crit(1);")
						add(s.End(), ";verifsim.Crit(-1)")
						rep.CritBrackets++
					}
				case *ast.DeferStmt:
					sel, ok := s.Call.Fun.(*ast.SelectorExpr)
					if !ok {
						continue
					}
					if (sel.Sel.Name == "Unlock" || sel.Sel.Name == "RUnlock") && len(s.Call.Args) == 0 {
						if wrapExpr {
							add(s.Pos(), "defer verifsim.Released();")
						} else {
							add(s.Pos(), "defer verifsim.Crit(-1);")
						}
					}
				}
			}
		}
		var walk func(n ast.Node) bool
		walk = func(n ast.Node) bool {
			switch x := n.(type) {
			case *ast.FuncDecl:
				if x.Body == nil {
					return false
				}
				if x.Doc != nil && strings.Contains(x.Doc.Text()+docDirectives(x.Doc), "go:nosplit") {
					return false // no room for calls on a nosplit stack
				}
				name := x.Name.Name
				if x.Recv != nil && len(x.Recv.List) > 0 {
					name = recvName(x.Recv.List[0].Type) + "." + name
				}
				fnStack = append(fnStack, name)
				bodyBlocks[x.Body] = true
				site(x.Body.Lbrace, "func", name)
				ast.Inspect(x.Body, walk)
				fnStack = fnStack[:len(fnStack)-1]
				return false
			case *ast.FuncLit:
				name := curFn() + ".func"
				fnStack = append(fnStack, name)
				bodyBlocks[x.Body] = true
				site(x.Body.Lbrace, "funclit", name)
				ast.Inspect(x.Body, walk)
				fnStack = fnStack[:len(fnStack)-1]
				return false
			case *ast.ForStmt:
				bodyBlocks[x.Body] = true
				site(x.Body.Lbrace, "for", curFn())
			case *ast.RangeStmt:
				bodyBlocks[x.Body] = true
				site(x.Body.Lbrace, "range", curFn())
			case *ast.BlockStmt:
				bracketList(x.List, bodyBlocks[x])
			case *ast.CaseClause:
				bracketList(x.Body, false)
			case *ast.CommClause:
				bracketList(x.Body, false)
				unc(x.Pos(), "select/comm clause")
			case *ast.GoStmt:
				unc(x.Pos(), "go statement")
			case *ast.SendStmt:
				unc(x.Pos(), "channel send")
			case *ast.SelectStmt:
				unc(x.Pos(), "select")
			case *ast.UnaryExpr:
				if x.Op == token.ARROW {
					unc(x.Pos(), "channel receive")
				}
			case *ast.MapType:
				unc(x.Pos(), "map type (iteration order is random)")
			case *ast.SelectorExpr:
				if id, ok := x.X.(*ast.Ident); ok && id.Name == "sync" && x.Sel.Name == "Pool" {
					unc(x.Pos(), "sync.Pool (per-P caches, cleared by GC)")
				}
				if id, ok := x.X.(*ast.Ident); ok && id.Name == "rand" {
					unc(x.Pos(), "rand."+x.Sel.Name)
				}
			case *ast.CallExpr:
				if wrapExpr && isAtomicValueCall(x) && singleValueContext(x, parents) {
					// a yield point right after the atomic operation, inside
					// the expression: verifsim.After(site, <call>)
					id := next
					next++
					rep.Sites = append(rep.Sites, Site{ID: id, File: rel, Line: fset.Position(x.Pos()).Line, Kind: "atomic", Func: curFn(), Hot: true})
					add(x.Pos(), fmt.Sprintf("verifsim.After(%d,", id))
					add(x.End(), ")")
					rep.AtomicWraps++
				}
				if sel, ok := x.Fun.(*ast.SelectorExpr); ok {
					if id, ok := sel.X.(*ast.Ident); ok && id.Name == "time" {
						switch sel.Sel.Name {
						case "Sleep", "After", "AfterFunc", "NewTimer", "NewTicker", "Tick", "Now", "Since":
							unc(x.Pos(), "time."+sel.Sel.Name)
						}
					}
					if sel.Sel.Name == "Wait" && len(x.Args) == 0 {
						unc(x.Pos(), ".Wait()")
					}
				}
			}
			return true
		}
		for _, d := range f.Decls {
			switch x := d.(type) {
			case *ast.FuncDecl:
				walk(x)
			default:
				// package-level var initialisers may contain function literals
				ast.Inspect(d, walk)
			}
		}
		if len(ins) == 0 {
			continue
		}
		// import on the package line keeps every line number unchanged
		add(f.Name.End(), fmt.Sprintf(`; import verifsim "%s/verifsim"`, mod))
		sort.SliceStable(ins, func(i, j int) bool {
			if ins[i].off != ins[j].off {
				return ins[i].off < ins[j].off
			}
			return ins[i].seq < ins[j].seq
		})
		var out bytes.Buffer
		last := 0
		for _, in := range ins {
			out.Write(src[last:in.off])
			out.WriteString(in.text)
			last = in.off
		}
		out.Write(src[last:])
		if err := os.WriteFile(p, out.Bytes(), 0o644); err != nil {
			return nil, err
		}
	}
	// install the scheduler runtime
	vdst := filepath.Join(dir, "verifsim")
	if err := os.MkdirAll(vdst, 0o755); err != nil {
		return nil, err
	}
	ents, err := os.ReadDir(verifsimSrc)
	if err != nil {
		return nil, err
	}
	for _, e := range ents {
		if e.IsDir() {
			continue
		}
		b, err := os.ReadFile(filepath.Join(verifsimSrc, e.Name()))
		if err != nil {
			return nil, err
		}
		if err := os.WriteFile(filepath.Join(vdst, e.Name()), b, 0o644); err != nil {
			return nil, err
		}
	}
	if wrapExpr {
		if err := os.WriteFile(filepath.Join(vdst, "after.go"), []byte(afterSrc), 0o644); err != nil {
			return nil, err
		}
	}
	return rep, nil
}

const afterSrc = `package verifsim

// After is the identity on v with a yield point: generated code wraps atomic
// operations that occur inside larger expressions, so that the scheduler can
// switch tasks between two atomic operations of one statement.
func After[T any](site int, v T) T {
	Yield(site)
	return v
}
`

// bumpGoDirective raises the scratch copy's language version to 1.18 if it is
// lower (verifsim.After is generic). No construct valid under an older version
// changes meaning under 1.18.
func bumpGoDirective(gomod string) error {
	b, err := os.ReadFile(gomod)
	if err != nil {
		return err
	}
	lines := strings.Split(string(b), "\n")
	found := false
	for i, ln := range lines {
		f := strings.Fields(ln)
		if len(f) == 2 && f[0] == "go" {
			found = true
			var maj, min int
			fmt.Sscanf(f[1], "%d.%d", &maj, &min)
			if maj == 1 && min < 18 {
				lines[i] = "go 1.18"
			}
		}
	}
	if !found {
		lines = append(lines, "go 1.18")
	}
	return os.WriteFile(gomod, []byte(strings.Join(lines, "\n")), 0o644)
}

// hasSyncCall: the statement contains (outside nested function literals) a call
// that looks like a synchronisation operation.
func hasSyncCall(st ast.Stmt) bool {
	found := false
	ast.Inspect(st, func(n ast.Node) bool {
		if found {
			return false
		}
		switch x := n.(type) {
		case *ast.FuncLit:
			return false
		case *ast.BlockStmt:
			if n != st {
				return false // only the statement's own header/expressions
			}
		case *ast.CallExpr:
			if sel, ok := x.Fun.(*ast.SelectorExpr); ok {
				if id, ok := sel.X.(*ast.Ident); ok && id.Name == "atomic" {
					found = true
					return false
				}
				na := len(x.Args)
				switch name := sel.Sel.Name; {
				case (name == "Lock" || name == "Unlock" || name == "RLock" || name == "RUnlock" || name == "TryLock" || name == "Get") && na == 0,
					name == "Load" && na <= 1,
					(name == "Store" || name == "LoadOrStore") && (na == 1 || na == 2),
					(name == "Swap" || name == "Put" || name == "Do" || name == "LoadAndDelete") && na == 1,
					name == "CompareAndSwap" && na == 2:
					found = true
					return false
				}
			}
		}
		return true
	})
	return found
}

// isAtomicValueCall recognises, syntactically, atomic operations that yield a
// single value: sync/atomic functions (Load*, Add*, Swap*, CompareAndSwap*,
// And*, Or*) and the method forms x.Load(), x.Swap(v), x.Add(d),
// x.CompareAndSwap(o, n). A look-alike method of another type is wrapped too;
// that is harmless when it returns one value and breaks the build otherwise,
// in which case simctl falls back to instrumentation without wrapping.
func isAtomicValueCall(c *ast.CallExpr) bool {
	sel, ok := c.Fun.(*ast.SelectorExpr)
	if !ok {
		return false
	}
	name := sel.Sel.Name
	if id, ok := sel.X.(*ast.Ident); ok && id.Name == "atomic" {
		for _, p := range []string{"Load", "Add", "Swap", "CompareAndSwap", "And", "Or"} {
			if strings.HasPrefix(name, p) {
				return true
			}
		}
		return false
	}
	switch {
	case name == "Load" && len(c.Args) == 0:
		return true
	case name == "Swap" && len(c.Args) == 1:
		return true
	case name == "Add" && len(c.Args) == 1:
		return true
	case name == "CompareAndSwap" && len(c.Args) == 2:
		return true
	}
	return false
}

// singleValueContext: the call's value is used, and used as one value.
func singleValueContext(c *ast.CallExpr, parents map[ast.Node]ast.Node) bool {
	switch p := parents[c].(type) {
	case nil, *ast.ExprStmt, *ast.GoStmt, *ast.DeferStmt:
		return false
	case *ast.AssignStmt:
		return len(p.Lhs) == len(p.Rhs)
	case *ast.ValueSpec:
		return len(p.Names) == len(p.Values)
	case *ast.ReturnStmt:
		return true
	case *ast.CallExpr:
		return p.Fun != c && (len(p.Args) > 1 || len(p.Args) == 1)
	}
	return true
}

// evalIntExpr folds an expression built from integer literals with + - * / << and
// parentheses; ok=false for anything else.
func evalIntExpr(e ast.Expr) (int64, bool) {
	switch x := e.(type) {
	case *ast.BasicLit:
		if x.Kind != token.INT {
			return 0, false
		}
		v, err := strconv.ParseInt(x.Value, 0, 64)
		return v, err == nil
	case *ast.ParenExpr:
		return evalIntExpr(x.X)
	case *ast.BinaryExpr:
		a, ok1 := evalIntExpr(x.X)
		b, ok2 := evalIntExpr(x.Y)
		if !ok1 || !ok2 {
			return 0, false
		}
		switch x.Op {
		case token.ADD:
			return a + b, true
		case token.SUB:
			return a - b, true
		case token.MUL:
			return a * b, true
		case token.QUO:
			if b == 0 {
				return 0, false
			}
			return a / b, true
		case token.SHL:
			if b < 0 || b > 40 {
				return 0, false
			}
			return a << uint(b), true
		}
	}
	return 0, false
}

func isGenerated(f *ast.File) bool { return false }

func docDirectives(cg *ast.CommentGroup) string {
	var sb strings.Builder
	for _, c := range cg.List {
		sb.WriteString(c.Text)
		sb.WriteByte('\n')
	}
	return sb.String()
}

func recvName(e ast.Expr) string {
	switch x := e.(type) {
	case *ast.StarExpr:
		return recvName(x.X)
	case *ast.Ident:
		return x.Name
	case *ast.IndexExpr:
		return recvName(x.X)
	case *ast.IndexListExpr:
		return recvName(x.X)
	}
	return "?"
}

func writeJSON(path string, v interface{}) error {
	b, err := json.MarshalIndent(v, "", " ")
	if err != nil {
		return err
	}
	return os.WriteFile(path, append(b, '\n'), 0o644)
}
