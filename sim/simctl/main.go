// simctl drives the C16 check: it instruments a scratch copy of the
// repository under test, builds the race-instrumented worker against it, runs
// the seeded simulation on all cores, proves determinism on a sample,
// minimises and files violations, and writes the evidence file.
//
// Exit codes: 0 = property held on everything explored; 1 = violation
// (a line "VIOLATION property=C16 replay=<path>" is printed); 2 = the check
// itself could not do its job (build failure, harness error, nondeterminism).
package main

import (
	"encoding/binary"
	"encoding/json"
	"flag"
	"fmt"
	"os"
	"os/exec"
	"os/signal"
	"path/filepath"
	"runtime"
	"sort"
	"strconv"
	"strings"
	"sync"
	"syscall"
	"time"
)

type config struct {
	verifDir string
	repoDir  string
	prop     string
	tier     string
	seed     uint64
	seconds  float64
	workers  int
	replay   string
	keep     bool
	goCmd    string
	detRuns  int
	noMin    bool
	replays  string
	evidence string
	goCmd2   string
}

var scratchDirs []string
var scratchMu sync.Mutex

func cleanup() {
	scratchMu.Lock()
	defer scratchMu.Unlock()
	for _, d := range scratchDirs {
		os.RemoveAll(d)
	}
	scratchDirs = nil
}

func die2(format string, a ...interface{}) {
	fmt.Fprintf(os.Stderr, "simctl: "+format+"\n", a...)
	cleanup()
	os.Exit(2)
}

func goEnv() []string {
	env := os.Environ()
	set := func(k, v string) {
		for i, e := range env {
			if strings.HasPrefix(e, k+"=") {
				env[i] = k + "=" + v
				return
			}
		}
		env = append(env, k+"="+v)
	}
	set("GOFLAGS", "-mod=mod")
	set("GOPROXY", "off")
	set("GOSUMDB", "off")
	set("GOTOOLCHAIN", "local")
	set("CGO_ENABLED", "1")
	return env
}

type built struct {
	scratch   string
	worker    string
	worker2   string // same sources built by a second toolchain (thorough tier), "" if none
	goVer2    string
	hotFile   string
	nhot      int
	constFile string
	rep       *InstrumentReport
	nsites    int
	goVer     string
}

// prepare instruments a copy of the working tree and builds the worker.
func prepare(cfg *config) *built {
	scratch, err := os.MkdirTemp("", "geosim-")
	if err != nil {
		die2("mktemp: %v", err)
	}
	scratchMu.Lock()
	scratchDirs = append(scratchDirs, scratch)
	scratchMu.Unlock()
	cp := filepath.Join(scratch, "copy")
	wdir := filepath.Join(scratch, "worker")
	bin := filepath.Join(scratch, "simworker")
	var rep *InstrumentReport
	var buildOut []byte
	// First attempt: with yield points inside expressions (around atomic
	// operations). If that copy does not build (a look-alike method was
	// wrapped), instrument again without expression wrapping.
	for _, wrap := range []bool{true, false} {
		os.RemoveAll(cp)
		os.RemoveAll(wdir)
		if err := copyTree(cfg.repoDir, cp); err != nil {
			die2("copy %s: %v", cfg.repoDir, err)
		}
		var err error
		rep, err = instrumentTree(cp, filepath.Join(cfg.verifDir, "sim", "verifsim"), wrap)
		if err != nil {
			die2("instrument: %v", err)
		}
		if err := os.MkdirAll(wdir, 0o755); err != nil {
			die2("%v", err)
		}
		srcs, _ := filepath.Glob(filepath.Join(cfg.verifDir, "sim", "worker", "*.go"))
		if len(srcs) == 0 {
			die2("no worker sources under %s/sim/worker", cfg.verifDir)
		}
		for _, s := range srcs {
			b, err := os.ReadFile(s)
			if err != nil {
				die2("%v", err)
			}
			if err := os.WriteFile(filepath.Join(wdir, filepath.Base(s)), b, 0o644); err != nil {
				die2("%v", err)
			}
		}
		gomod := fmt.Sprintf("module geosimworker\n\ngo 1.18\n\nrequire %s v0.0.0\n\nreplace %s => ../copy\n", rep.Module, rep.Module)
		if err := os.WriteFile(filepath.Join(wdir, "go.mod"), []byte(gomod), 0o644); err != nil {
			die2("%v", err)
		}
		if b, err := os.ReadFile(filepath.Join(cfg.repoDir, "go.sum")); err == nil {
			_ = os.WriteFile(filepath.Join(wdir, "go.sum"), b, 0o644)
		}
		cmd := exec.Command(cfg.goCmd, "build", "-race", "-trimpath", "-o", bin, ".")
		cmd.Dir = wdir
		cmd.Env = goEnv()
		var err2 error
		buildOut, err2 = cmd.CombinedOutput()
		if err2 == nil {
			buildOut = nil
			break
		}
		if wrap {
			fmt.Fprintf(os.Stderr, "simctl: build with expression-level yield points failed, retrying without them\n")
		}
	}
	if buildOut != nil {
		die2("building the instrumented tree failed (not a verdict):\n%s", buildOut)
	}
	bin2, ver2 := "", ""
	if cfg.tier == "thorough" && cfg.goCmd2 != "" {
		if p, err := exec.LookPath(cfg.goCmd2); err == nil {
			b2 := filepath.Join(scratch, "simworker-alt")
			c2 := exec.Command(p, "build", "-race", "-trimpath", "-o", b2, ".")
			c2.Dir = wdir
			c2.Env = goEnv()
			if out, err := c2.CombinedOutput(); err == nil {
				bin2 = b2
				v2, _ := exec.Command(p, "version").Output()
				ver2 = strings.TrimSpace(string(v2))
			} else {
				fmt.Fprintf(os.Stderr, "simctl: second toolchain %s could not build the worker (continuing with one):\n%s\n", cfg.goCmd2, out)
			}
		}
	}
	vout, _ := exec.Command(cfg.goCmd, "version").Output()
	nsites := firstLibSite
	for _, s := range rep.Sites {
		if s.ID+1 > nsites {
			nsites = s.ID + 1
		}
	}
	var hot []int
	for _, s := range rep.Sites {
		if s.Hot {
			hot = append(hot, s.ID)
		}
	}
	constFile := filepath.Join(scratch, "consts.json")
	if err := writeJSON(constFile, rep.Constants); err != nil {
		die2("%v", err)
	}
	if err := writeJSON(filepath.Join(scratch, "fconsts.json"), rep.FloatConsts); err != nil {
		die2("%v", err)
	}
	hotFile := filepath.Join(scratch, "hot.json")
	if err := writeJSON(hotFile, hot); err != nil {
		die2("%v", err)
	}
	return &built{scratch: scratch, worker: bin, worker2: bin2, goVer2: ver2, rep: rep, nsites: nsites, nhot: len(hot), hotFile: hotFile, constFile: constFile, goVer: strings.TrimSpace(string(vout))}
}

// WorkerReport mirrors the worker's aggregate (only what simctl needs).
type WorkerReport struct {
	Worker         int               `json:"worker"`
	Race           bool              `json:"race_detector"`
	GoVersion      string            `json:"go_version"`
	Runs           int               `json:"runs"`
	FirstRun       int               `json:"first_run"`
	WallS          float64           `json:"wall_s"`
	Steps          int64             `json:"steps"`
	SoloSteps      int64             `json:"solo_steps"`
	Switches       int64             `json:"switches"`
	InFlightSw     int64             `json:"inflight_switches"`
	Ops            int               `json:"ops"`
	OpsCompared    int               `json:"ops_compared"`
	SoloAbnormal   int               `json:"solo_abnormal"`
	OverlapPairs   int               `json:"overlap_pairs_same_object"`
	OverlapAny     int               `json:"overlap_pairs_any"`
	NontrivialRuns int               `json:"nontrivial_runs"`
	BuildErrors    int               `json:"build_errors"`
	Faults         map[string]int    `json:"faults_fired"`
	Strategies     map[string]int    `json:"strategies"`
	Methods        map[string]int    `json:"methods"`
	Kinds          map[string]int    `json:"kinds"`
	Triples        map[string]int    `json:"triples"`
	TaskHist       map[string]int    `json:"tasks_hist"`
	SiteHits       []uint32          `json:"site_hits"`
	SitePreempt    []uint32          `json:"site_preempt"`
	ViolationFiles []string          `json:"violation_files"`
	ViolationKeys  map[string]int    `json:"violation_keys"`
	Infra          []string          `json:"infra"`
	FreeRuns       int               `json:"free_runs"`
	StrayRuns      int               `json:"stray_runs"`
	Samples        []json.RawMessage `json:"samples"`
	HashFile       string            `json:"hash_file"`
	NextRun        int               `json:"next_run"`
	Audits         int               `json:"history_audits"`
}

func addMap(dst, src map[string]int) {
	for k, v := range src {
		dst[k] += v
	}
}

const raceOpts = "halt_on_error=0 exitcode=0 atexit_sleep_ms=0 history_size=2"

// altWorker: in the thorough tier every fourth batch worker (and the matching
// determinism traces, w >= 5000) runs the binary built by the second toolchain.
func useAlt(b *built, w int) bool {
	if b.worker2 == "" {
		return false
	}
	if w >= 5000 {
		return true
	}
	return w < 1000 && w%4 == 3
}

func workerCmd(b *built, outDir string, w int, args ...string) *exec.Cmd {
	bin := b.worker
	if useAlt(b, w) {
		bin = b.worker2
	}
	cmd := exec.Command(bin, args...)
	env := append(os.Environ(), "GEOSIM_HOT="+b.hotFile, "GEOSIM_CONSTS="+b.constFile, "GEOSIM_FCONSTS="+filepath.Join(b.scratch, "fconsts.json"))
	if len(b.rep.Uncontrolled) > 0 {
		env = append(env, "GEOSIM_UNCONTROLLED=1")
	}
	var e2 []string
	for _, e := range env {
		if strings.HasPrefix(e, "GORACE=") || strings.HasPrefix(e, "GOMAXPROCS=") {
			continue
		}
		e2 = append(e2, e)
	}
	e2 = append(e2, fmt.Sprintf("GORACE=%s log_path=%s", raceOpts, filepath.Join(outDir, fmt.Sprintf("race-%d", w))))
	e2 = append(e2, "GOMAXPROCS=1")
	cmd.Env = e2
	cmd.Stderr = os.Stderr
	return cmd
}

type batchResult struct {
	reports   []*WorkerReport
	infra     []string
	watchdogs int
	fallbacks int
}

// runBatch runs the workers for the wall budget, restarting a worker that hit
// the watchdog (after repeating the stuck run uncontrolled).
func runBatch(cfg *config, b *built, outDir string) *batchResult {
	res := &batchResult{}
	var mu sync.Mutex
	var wg sync.WaitGroup
	deadline := time.Now().Add(time.Duration(cfg.seconds * float64(time.Second)))
	for w := 0; w < cfg.workers; w++ {
		wg.Add(1)
		go func(w int) {
			defer wg.Done()
			first := 0
			myWatchdogs := 0
			for gen := 0; gen < 300; gen++ {
				left := time.Until(deadline).Seconds()
				if left < 1 {
					return
				}
				tag := fmt.Sprintf("%d-g%d", w, gen)
				wd := "15"
				if cfg.tier == "thorough" {
					wd = "40"
				}
				wdLimit := 3
				if blockingConstructs(b.rep) {
					// the library contains waits the scheduler cannot own (Cond/
					// WaitGroup .Wait(), channel operations): be quick to give up
					// on controlled execution
					wd, wdLimit = "5", 1
				}
				args := []string{"batch", "-watchdog", wd,
					"-seed", fmt.Sprint(cfg.seed), "-worker", fmt.Sprint(w), "-tier", cfg.tier,
					"-seconds", fmt.Sprintf("%.1f", left), "-first", fmt.Sprint(first),
					"-out", outDir, "-sites", fmt.Sprint(b.nsites), "-tag", tag}
				if myWatchdogs >= wdLimit {
					// the library blocks in ways the scheduler cannot own (it did so
					// twice already): the rest of this worker's runs are uncontrolled
					args = append(args, "-free")
				}
				cmd := workerCmd(b, outDir, w, args...)
				if myWatchdogs >= wdLimit {
					for i, e := range cmd.Env {
						if strings.HasPrefix(e, "GOMAXPROCS=") {
							cmd.Env[i] = "GOMAXPROCS=4"
						}
					}
				}
				err := cmd.Run()
				code := 0
				if err != nil {
					if ee, ok := err.(*exec.ExitError); ok {
						code = ee.ExitCode()
					} else {
						mu.Lock()
						res.infra = append(res.infra, fmt.Sprintf("worker %d: %v", w, err))
						mu.Unlock()
						return
					}
				}
				if code == 0 || code == 4 {
					rep := &WorkerReport{}
					if err := readJSON(filepath.Join(outDir, "worker-"+tag+".json"), rep); err != nil {
						mu.Lock()
						res.infra = append(res.infra, fmt.Sprintf("worker %d: no report: %v", w, err))
						mu.Unlock()
						return
					}
					mu.Lock()
					res.reports = append(res.reports, rep)
					mu.Unlock()
					if code == 4 && rep.NextRun > first {
						// a run was unwound (hang/deadlock): fresh process for the rest
						first = rep.NextRun
						continue
					}
					return
				}
				if code == 3 {
					// watchdog: a run made no progress (blocking the scheduler does
					// not own). Repeat that run uncontrolled, then carry on after it.
					var wd struct {
						Run int `json:"run"`
					}
					if err := readJSON(filepath.Join(outDir, fmt.Sprintf("watchdog-%d.json", w)), &wd); err != nil {
						mu.Lock()
						res.infra = append(res.infra, fmt.Sprintf("worker %d: watchdog without record", w))
						mu.Unlock()
						return
					}
					mu.Lock()
					res.watchdogs++
					mu.Unlock()
					myWatchdogs++
					ftag := tag + "-free"
					fcmd := workerCmd(b, outDir, w, "batch",
						"-seed", fmt.Sprint(cfg.seed), "-worker", fmt.Sprint(w), "-tier", cfg.tier,
						"-seconds", "300", "-watchdog", "120", "-first", fmt.Sprint(wd.Run), "-maxruns", "1", "-free",
						"-out", outDir, "-sites", fmt.Sprint(b.nsites), "-tag", ftag)
					// free mode may use real parallelism
					for i, e := range fcmd.Env {
						if strings.HasPrefix(e, "GOMAXPROCS=") {
							fcmd.Env[i] = "GOMAXPROCS=4"
						}
					}
					if err := fcmd.Run(); err != nil {
						mu.Lock()
						res.infra = append(res.infra, fmt.Sprintf("worker %d run %d: stuck in controlled AND uncontrolled mode: %v", w, wd.Run, err))
						mu.Unlock()
					} else {
						rep := &WorkerReport{}
						if err := readJSON(filepath.Join(outDir, "worker-"+ftag+".json"), rep); err == nil {
							mu.Lock()
							res.reports = append(res.reports, rep)
							res.fallbacks++
							mu.Unlock()
						}
					}
					first = wd.Run + 1
					continue
				}
				mu.Lock()
				res.infra = append(res.infra, fmt.Sprintf("worker %d exited with status %d", w, code))
				mu.Unlock()
				return
			}
		}(w)
	}
	wg.Wait()
	return res
}

func blockingConstructs(rep *InstrumentReport) bool {
	for _, c := range rep.Uncontrolled {
		switch c.What {
		case ".Wait()", "channel send", "channel receive", "select", "select/comm clause":
			return true
		}
	}
	return false
}

func readJSON(path string, v interface{}) error {
	b, err := os.ReadFile(path)
	if err != nil {
		return err
	}
	return json.Unmarshal(b, v)
}

// determinismTest runs the same generated runs in separate processes at
// different GOMAXPROCS and compares trace hashes line by line.
func determinismTest(cfg *config, b *built, outDir string) (runs int, procs int, problems []string) {
	type job struct {
		w     int
		procs string
	}
	gmp := []string{"1", "4"}
	if cfg.tier == "thorough" {
		gmp = []string{"1", "2", "4", "16"}
		if b.worker2 != "" {
			gmp = append(gmp, "alt") // same runs, binary of the second toolchain
		}
	}
	nw := 4
	if cfg.tier == "thorough" {
		nw = 8
	}
	if nw > cfg.workers {
		nw = cfg.workers
	}
	outs := make(map[job]string)
	var mu sync.Mutex
	var wg sync.WaitGroup
	sem := make(chan struct{}, runtime.NumCPU())
	for w := 0; w < nw; w++ {
		for _, p := range gmp {
			wg.Add(1)
			go func(j job) {
				defer wg.Done()
				sem <- struct{}{}
				defer func() { <-sem }()
				wid := 1000 + j.w
				if j.procs == "alt" {
					wid = 5000 + j.w
				}
				cmd := workerCmd(b, outDir, wid, "trace", "-seed", fmt.Sprint(cfg.seed), "-worker", fmt.Sprint(j.w),
					"-tier", cfg.tier, "-from", "0", "-n", fmt.Sprint(cfg.detRuns), "-sites", fmt.Sprint(b.nsites))
				for i, e := range cmd.Env {
					if strings.HasPrefix(e, "GOMAXPROCS=") && j.procs != "alt" {
						cmd.Env[i] = "GOMAXPROCS=" + j.procs
					}
				}
				// a trace process has no watchdog of its own: a library that blocks in
				// ways the scheduler cannot own (sync.Cond, channels) would hang it
				limit := 90 * time.Second
				if cfg.tier == "thorough" {
					limit = 300 * time.Second
				}
				if blockingConstructs(b.rep) {
					limit = 20 * time.Second
				}
				timer := time.AfterFunc(limit, func() {
					if cmd.Process != nil {
						_ = cmd.Process.Kill()
					}
				})
				out, err := cmd.Output()
				timer.Stop()
				mu.Lock()
				defer mu.Unlock()
				if err != nil {
					problems = append(problems, fmt.Sprintf("trace worker %d GOMAXPROCS=%s: %v (killed after %v if it made no progress)", j.w, j.procs, err, limit))
					return
				}
				outs[j] = string(out)
				procs++
			}(job{w, p})
		}
	}
	wg.Wait()
	for w := 0; w < nw; w++ {
		ref, ok := outs[job{w, gmp[0]}]
		if !ok {
			continue
		}
		runs += strings.Count(ref, "\n")
		for _, p := range gmp[1:] {
			o, ok := outs[job{w, p}]
			if !ok {
				continue
			}
			if o != ref {
				rl, ol := strings.Split(ref, "\n"), strings.Split(o, "\n")
				for i := range rl {
					if i >= len(ol) || rl[i] != ol[i] {
						problems = append(problems, fmt.Sprintf("nondeterminism: worker %d run line %d: GOMAXPROCS=%s %q vs GOMAXPROCS=%s %q", w, i, gmp[0], rl[i], p, safeIdx(ol, i)))
						break
					}
				}
			}
		}
	}
	return
}

func safeIdx(s []string, i int) string {
	if i < len(s) {
		return s[i]
	}
	return "<missing>"
}

// KnownFindings is /verif/known_findings.json.
type KnownFindings struct {
	Known []struct {
		Property string `json:"property"`
		Key      string `json:"key"`
		What     string `json:"what"`
	} `json:"known"`
	Fixed []struct {
		Property string `json:"property"`
		Commit   string `json:"commit"`
		What     string `json:"what"`
	} `json:"fixed"`
}

type Violation struct {
	Class   string `json:"class"`
	Key     string `json:"key"`
	Detail  string `json:"detail"`
	Task    int    `json:"task,omitempty"`
	OpIndex int    `json:"op_index,omitempty"`
	Method  string `json:"method,omitempty"`
	Kind    string `json:"kind,omitempty"`
	Got     string `json:"got,omitempty"`
	Want    string `json:"want,omitempty"`
	Alone   string `json:"alone,omitempty"`
	Report  string `json:"report,omitempty"`
}

type replayHead struct {
	Property   string      `json:"property"`
	Controlled bool        `json:"controlled"`
	Minimised  bool        `json:"minimised"`
	Flaky      bool        `json:"flaky,omitempty"`
	TraceHash  string      `json:"trace_hash"`
	Violations []Violation `json:"violations"`
	Note       string      `json:"note,omitempty"`
}

func isKnown(kf *KnownFindings, prop, key string) (bool, string) {
	for _, k := range kf.Known {
		if k.Property == prop && k.Key == key {
			return true, k.What
		}
	}
	return false, ""
}

func main() {
	if len(os.Args) < 2 {
		fmt.Fprintln(os.Stderr, "usage: simctl check <property> [--tier quick|thorough] [--replay file] | simctl instrument <src> <dst>")
		os.Exit(2)
	}
	switch os.Args[1] {
	case "instrument":
		if len(os.Args) != 5 {
			fmt.Fprintln(os.Stderr, "usage: simctl instrument <src> <dst> <verifsim-src>")
			os.Exit(2)
		}
		if err := copyTree(os.Args[2], os.Args[3]); err != nil {
			die2("%v", err)
		}
		rep, err := instrumentTree(os.Args[3], os.Args[4], os.Getenv("GEOSIM_NOWRAP") == "")
		if err != nil {
			die2("%v", err)
		}
		fmt.Printf("instrumented %d files, %d sites, %d brackets, %d uncontrolled constructs\n", rep.Files, len(rep.Sites), rep.CritBrackets, len(rep.Uncontrolled))
		_ = writeJSON(filepath.Join(os.Args[3], "verifsim-sites.json"), rep)
		return
	case "check":
	default:
		fmt.Fprintln(os.Stderr, "unknown subcommand", os.Args[1])
		os.Exit(2)
	}
	fs := flag.NewFlagSet("check", flag.ExitOnError)
	tier := fs.String("tier", "", "quick|thorough (default: $VERIF_TIER or quick)")
	replay := fs.String("replay", "", "replay file")
	seconds := fs.Float64("seconds", 0, "wall budget for the simulation batch")
	workers := fs.Int("workers", 0, "worker processes (default: all cores)")
	keep := fs.Bool("keep", false, "keep the scratch directory (debugging)")
	verifDir := fs.String("verif", "", "verif directory (default: cwd)")
	repoDir := fs.String("repo", "/repo", "repository under test")
	goCmd := fs.String("go", "", "go command (default $GEOSIM_GO or go)")
	noMin := fs.Bool("nomin", false, "do not minimise violations")
	replays := fs.String("replays", "", "directory for replay files (default <verif>/replays)")
	evidence := fs.String("evidence", "", "evidence file (default <verif>/evidence/<id>.json)")
	if len(os.Args) < 3 {
		die2("check needs a property id")
	}
	prop := os.Args[2]
	_ = fs.Parse(os.Args[3:])
	if prop != "C16" {
		die2("property %s is not decided by this engine (see MANIFEST.json not_applicable)", prop)
	}
	cfg := &config{prop: prop, tier: *tier, replay: *replay, seconds: *seconds, workers: *workers, keep: *keep, verifDir: *verifDir, repoDir: *repoDir, goCmd: *goCmd, noMin: *noMin, replays: *replays, evidence: *evidence}
	if cfg.tier == "" {
		cfg.tier = os.Getenv("VERIF_TIER")
	}
	if cfg.tier != "thorough" {
		cfg.tier = "quick"
	}
	if cfg.verifDir == "" {
		cfg.verifDir, _ = os.Getwd()
	}
	cfg.verifDir, _ = filepath.Abs(cfg.verifDir)
	if cfg.goCmd == "" {
		cfg.goCmd = os.Getenv("GEOSIM_GO")
	}
	if cfg.goCmd == "" {
		cfg.goCmd = "go"
	}
	cfg.goCmd2 = os.Getenv("GEOSIM_GO2")
	if cfg.goCmd2 == "" {
		cfg.goCmd2 = "go1.26.8"
	}
	if cfg.goCmd2 == "none" {
		cfg.goCmd2 = ""
	}
	cfg.seed = 20260927
	if s := os.Getenv("VERIF_SEED"); s != "" {
		if v, err := strconv.ParseUint(s, 10, 64); err == nil {
			cfg.seed = v
		} else if v, err := strconv.ParseInt(s, 10, 64); err == nil {
			cfg.seed = uint64(v)
		}
	}
	if cfg.workers <= 0 {
		cfg.workers = runtime.NumCPU()
		if cfg.workers > 16 {
			cfg.workers = 16
		}
	}
	if cfg.seconds <= 0 {
		if cfg.tier == "thorough" {
			cfg.seconds = 1080
		} else {
			cfg.seconds = 50
		}
		if s := os.Getenv("GEOSIM_SECONDS"); s != "" {
			if v, err := strconv.ParseFloat(s, 64); err == nil && v > 0 {
				cfg.seconds = v
			}
		}
	}
	cfg.detRuns = 25
	if cfg.tier == "thorough" {
		cfg.detRuns = 60
	}
	sig := make(chan os.Signal, 1)
	signal.Notify(sig, syscall.SIGINT, syscall.SIGTERM, syscall.SIGHUP)
	go func() {
		<-sig
		cleanup()
		os.Exit(2)
	}()
	rc := runCheck(cfg)
	if !cfg.keep {
		cleanup()
	} else {
		fmt.Fprintln(os.Stderr, "scratch kept:", scratchDirs)
	}
	os.Exit(rc)
}

func runCheck(cfg *config) int {
	start := time.Now()
	fmt.Printf("geosim: property=%s tier=%s VERIF_SEED=%d workers=%d budget=%.0fs\n", cfg.prop, cfg.tier, cfg.seed, cfg.workers, cfg.seconds)
	b := prepare(cfg)
	fmt.Printf("geosim: instrumented %d files, %d yield sites, %d no-preempt brackets, %d constructs outside scheduler control; toolchain %s; build %.1fs\n",
		b.rep.Files, len(b.rep.Sites), b.rep.CritBrackets, len(b.rep.Uncontrolled), b.goVer, time.Since(start).Seconds())
	outDir := filepath.Join(b.scratch, "out")
	_ = os.MkdirAll(outDir, 0o755)

	kf := &KnownFindings{}
	_ = readJSON(filepath.Join(cfg.verifDir, "known_findings.json"), kf)

	if cfg.replay != "" {
		return runReplay(cfg, b, outDir, kf)
	}

	br := runBatch(cfg, b, outDir)
	detRuns, detProcs, detProblems := determinismTest(cfg, b, outDir)

	// ---- aggregate
	agg := &WorkerReport{Faults: map[string]int{}, Strategies: map[string]int{}, Methods: map[string]int{}, Kinds: map[string]int{}, Triples: map[string]int{}, TaskHist: map[string]int{}, ViolationKeys: map[string]int{}}
	siteHits := make([]uint64, b.nsites)
	sitePre := make([]uint64, b.nsites)
	distinct := map[uint64]struct{}{}
	var samples []json.RawMessage
	var violFiles []string
	infra := append([]string{}, br.infra...)
	for _, r := range br.reports {
		agg.Runs += r.Runs
		agg.Steps += r.Steps
		agg.SoloSteps += r.SoloSteps
		agg.Switches += r.Switches
		agg.InFlightSw += r.InFlightSw
		agg.Ops += r.Ops
		agg.OpsCompared += r.OpsCompared
		agg.SoloAbnormal += r.SoloAbnormal
		agg.OverlapPairs += r.OverlapPairs
		agg.OverlapAny += r.OverlapAny
		agg.NontrivialRuns += r.NontrivialRuns
		agg.BuildErrors += r.BuildErrors
		agg.FreeRuns += r.FreeRuns
		agg.StrayRuns += r.StrayRuns
		agg.Audits += r.Audits
		if r.Race {
			agg.Race = true
		}
		agg.GoVersion = r.GoVersion
		addMap(agg.Faults, r.Faults)
		addMap(agg.Strategies, r.Strategies)
		addMap(agg.Methods, r.Methods)
		addMap(agg.Kinds, r.Kinds)
		addMap(agg.Triples, r.Triples)
		addMap(agg.TaskHist, r.TaskHist)
		addMap(agg.ViolationKeys, r.ViolationKeys)
		for i, v := range r.SiteHits {
			if i < len(siteHits) {
				siteHits[i] += uint64(v)
			}
		}
		for i, v := range r.SitePreempt {
			if i < len(sitePre) {
				sitePre[i] += uint64(v)
			}
		}
		violFiles = append(violFiles, r.ViolationFiles...)
		infra = append(infra, r.Infra...)
		if len(samples) < 3 {
			samples = append(samples, r.Samples...)
		}
		if hb, err := os.ReadFile(r.HashFile); err == nil {
			for i := 0; i+8 <= len(hb); i += 8 {
				distinct[binary.LittleEndian.Uint64(hb[i:])] = struct{}{}
			}
		}
	}
	// A trace-hash divergence between two executions of the same run is a bug of
	// this harness - unless the library itself contains constructs whose
	// behaviour no user-level scheduler can own (sync.Pool, map iteration,
	// goroutines, channels, clocks). Then it is attributed to them, reported in
	// the evidence, and does not fail the check: verdicts (race reports, value
	// mismatches) are sound whether or not a run replays bit-for-bit.
	var detWarnings []string
	if len(b.rep.Uncontrolled) > 0 {
		detWarnings = detProblems
	} else {
		infra = append(infra, detProblems...)
	}
	// violation files of workers that died on the watchdog are not in any report
	if extra, err := filepath.Glob(filepath.Join(outDir, "viol-*.json")); err == nil {
		seen := map[string]bool{}
		for _, f := range violFiles {
			seen[f] = true
		}
		for _, f := range extra {
			if !seen[f] {
				violFiles = append(violFiles, f)
			}
		}
	}
	sort.Strings(violFiles)

	// ---- violations: one minimised replay file per distinct key
	type filed struct {
		key, path, what string
		known           bool
	}
	var filedV []filed
	minStart := time.Now()
	seenKey := map[string]bool{}
	replayDir := cfg.replays
	if replayDir == "" {
		replayDir = filepath.Join(cfg.verifDir, "replays")
	}
	_ = os.MkdirAll(replayDir, 0o755)
	// order the recorded violating runs: smallest first, so that each distinct
	// key is minimised starting from the smallest run that showed it
	type vfile struct {
		path string
		size int64
	}
	var vfs []vfile
	for _, vf := range violFiles {
		if fi, err := os.Stat(vf); err == nil {
			vfs = append(vfs, vfile{vf, fi.Size()})
		}
	}
	sort.SliceStable(vfs, func(i, j int) bool { return vfs[i].size < vfs[j].size })
	for _, vfe := range vfs {
		vf := vfe.path
		var head replayHead
		if err := readJSON(vf, &head); err != nil || len(head.Violations) == 0 {
			continue
		}
		key := head.Violations[0].Key
		for _, v := range head.Violations {
			if v.Class == "race" && !seenKey[v.Key] {
				key = v.Key
				break
			}
		}
		if seenKey[key] {
			continue
		}
		if len(filedV) >= 4 {
			break
		}
		minBudget := 150.0
		if cfg.tier == "thorough" {
			minBudget = 600
		}
		noMin := cfg.noMin || time.Since(minStart).Seconds() > minBudget
		base := strings.TrimSuffix(filepath.Base(vf), ".json")
		dst := filepath.Join(replayDir, fmt.Sprintf("C16-seed%d-%s.json", cfg.seed, strings.TrimPrefix(base, "viol-")))
		if noMin {
			bts, _ := os.ReadFile(vf)
			_ = os.WriteFile(dst, bts, 0o644)
		} else {
			secs := "75"
			if cfg.tier == "thorough" {
				secs = "240"
			}
			cmd := workerCmd(b, outDir, 2000+len(filedV), "minimise", "-in", vf, "-out", dst, "-sites", fmt.Sprint(b.nsites), "-seconds", secs, "-key", key)
			cmd.Stdout = os.Stdout
			if err := cmd.Run(); err != nil {
				bts, _ := os.ReadFile(vf)
				_ = os.WriteFile(dst, bts, 0o644)
			}
		}
		var min replayHead
		_ = readJSON(dst, &min)
		if len(min.Violations) == 0 {
			min = head
		}
		for _, v := range min.Violations {
			seenKey[v.Key] = true
		}
		for _, v := range head.Violations {
			seenKey[v.Key] = true
		}
		seenKey[key] = true
		known, what := isKnown(kf, cfg.prop, key)
		desc := key
		for _, v := range min.Violations {
			if v.Key == key {
				desc = key + " — " + v.Detail
			}
		}
		if known {
			desc = key + " — " + what
		}
		filedV = append(filedV, filed{key: key, path: dst, what: desc, known: known})
	}

	// ---- evidence
	hit, pre := 0, 0
	var unhit []string
	for _, s := range b.rep.Sites {
		if siteHits[s.ID] > 0 {
			hit++
		} else if len(unhit) < 400 {
			unhit = append(unhit, fmt.Sprintf("%s:%d %s", s.File, s.Line, s.Func))
		}
		if sitePre[s.ID] > 0 {
			pre++
		}
	}
	wall := time.Since(start).Seconds()
	nviol := 0
	for _, f := range filedV {
		if !f.known {
			nviol++
		}
	}
	topTriples := topN(agg.Triples, 25)
	ev := map[string]interface{}{
		"property_id": cfg.prop,
		"tier":        cfg.tier,
		"seed":        int64(cfg.seed),
		"level":       "exploration",
		"wall_s":      wall,
		"violations":  nviol,
		"coverage": map[string]interface{}{
			"evaluations":         agg.Runs,
			"distinct_nontrivial": len(distinct),
			"rule": "one evaluation = one simulated run: a freshly generated pool of objects (all 12 kinds; by Parse in several text styles, by constructors, from parts of other geometry objects; siblings, shared children, a stratified or degenerate hot object; sizes next to the constants harvested from the library source), 2-16 caller tasks with drawn operation lists or one of the workload shapes (sweep, crowd, marathon, argstorm, duel), and one drawn schedule + fault list, executed serially under the seeded scheduler with the race detector on, then compared operation by operation with the same operations run alone on a twin pool (and, for a sample, with a re-execution in a fresh process in reverse order). " +
				"A run is non-trivial iff the scheduler preempted a task at least once INSIDE an in-flight library call and at least one pair of calls from different tasks overlapped in logical time while touching the same pool object; distinct = distinct (workload, switch-sequence) hashes among those runs, counted by the driver.",
			"samples":                          samples,
			"runs_per_hour":                    float64(agg.Runs) / cfg.seconds * 3600,
			"seeds":                            fmt.Sprintf("VERIF_SEED=%d; run (w,r) uses splitmix(VERIF_SEED,w,r), w<%d", cfg.seed, cfg.workers),
			"simulated_time_steps":             agg.Steps,
			"simulated_time_note":              "the code has no clock; simulated time is the count of yield points executed under the scheduler",
			"reference_pass_steps":             agg.SoloSteps,
			"task_switches":                    agg.Switches,
			"task_switches_inside_a_call":      agg.InFlightSw,
			"operations_executed":              agg.Ops,
			"operations_compared_with_solo":    agg.OpsCompared,
			"solo_abnormal_excluded":           agg.SoloAbnormal,
			"overlapping_call_pairs_same_obj":  agg.OverlapPairs,
			"overlapping_call_pairs_any":       agg.OverlapAny,
			"nontrivial_runs":                  agg.NontrivialRuns,
			"fault_kinds_fired":                agg.Faults,
			"schedule_strategies":              agg.Strategies,
			"tasks_per_run_histogram":          agg.TaskHist,
			"methods_executed":                 agg.Methods,
			"receiver_kinds":                   agg.Kinds,
			"overlap_triples_kind_mA_mB_top":   topTriples,
			"overlap_triples_distinct":         len(agg.Triples),
			"yield_sites_total":                len(b.rep.Sites),
			"yield_sites_hit":                  hit,
			"yield_sites_preempted_at":         pre,
			"yield_sites_never_hit":            unhit,
			"no_preempt_brackets":              b.rep.CritBrackets,
			"expression_level_yields":          b.rep.ExprWrapping,
			"atomic_ops_wrapped":               b.rep.AtomicWraps,
			"library_locks_simulated":          b.rep.SimLocks,
			"hot_sites_after_sync_ops":         b.nhot,
			"integer_constants_harvested":      b.rep.Constants,
			"float_constants_harvested":        b.rep.FloatConsts,
			"constructs_outside_scheduler":     b.rep.Uncontrolled,
			"controlled":                       agg.FreeRuns == 0,
			"uncontrolled_fallback_runs":       agg.FreeRuns,
			"stray_goroutine_runs":             agg.StrayRuns,
			"history_audits_in_fresh_process":  agg.Audits,
			"watchdog_restarts":                br.watchdogs,
			"pool_build_rejections":            agg.BuildErrors,
			"determinism_selftest":             map[string]interface{}{"runs_compared": detRuns, "processes": detProcs, "divergences": len(detProblems), "attributed_to_library_constructs": detWarnings},
			"race_detector":                    agg.Race,
			"race_detector_settings":           "GORACE=" + raceOpts,
			"toolchain":                        b.goVer,
			"second_toolchain":                 b.goVer2,
			"components_real":                  []string{"github.com/tidwall/geojson (working tree, + generated yield points)", "geojson/geometry", "geojson/geo", "tidwall/gjson", "tidwall/pretty", "tidwall/sjson", "tidwall/rtree", "Go runtime, GC, race runtime"},
			"components_simulated_or_stubbed":  []string{"choice of which caller goroutine runs (seeded decision list instead of the Go/OS scheduler)"},
			"components_absent_in_this_system": []string{"network", "disk", "clock/timers"},
			"violation_keys":                   agg.ViolationKeys,
			"infrastructure_problems":          infra,
		},
		"assumptions": []string{
			"sampling, not enumeration: a clean batch is evidence, not proof",
			"races are only observable on paths the generated workload executes (see yield_sites_never_hit)",
			"the race runtime keeps a bounded access history per memory word; mitigated by few tasks, hot objects, short runs",
			"serial execution is sequentially consistent: weak-memory effects are not produced, only the races that permit them",
			"dependencies (gjson, pretty, sjson, rtree) are race-instrumented but preempted only at library frames and callbacks",
			"regions holding a library lock / inside sync.Once are never split (removes interleavings, cannot add a false alarm); lock-order deadlocks are not explored",
		},
	}
	evPath := cfg.evidence
	if evPath == "" {
		evPath = filepath.Join(cfg.verifDir, "evidence", cfg.prop+".json")
	}
	_ = os.MkdirAll(filepath.Dir(evPath), 0o755)
	if err := writeJSON(evPath, ev); err != nil {
		die2("cannot write evidence: %v", err)
	}

	fmt.Printf("geosim: %d runs (%.0f/h), %d steps, %d switches (%d inside a call), %d ops compared, %d non-trivial runs, %d distinct; sites hit %d/%d, preempted at %d; determinism %d runs x %d procs, %d divergences; wall %.0fs\n",
		agg.Runs, float64(agg.Runs)/cfg.seconds*3600, agg.Steps, agg.Switches, agg.InFlightSw, agg.OpsCompared, agg.NontrivialRuns, len(distinct), hit, len(b.rep.Sites), pre, detRuns, detProcs, len(detProblems), wall)
	fmt.Printf("geosim: faults fired: %v\n", agg.Faults)

	rc := 0
	for _, f := range filedV {
		if f.known {
			fmt.Printf("KNOWN-FINDING: property=%s %s\n", cfg.prop, f.what)
			continue
		}
		fmt.Printf("VIOLATION property=%s replay=%s\n", cfg.prop, f.path)
		fmt.Printf("  %s\n", f.what)
		rc = 1
	}
	if rc == 0 && len(infra) > 0 {
		fmt.Fprintf(os.Stderr, "simctl: infrastructure problems (not a verdict):\n")
		for i, p := range infra {
			if i >= 10 {
				break
			}
			fmt.Fprintf(os.Stderr, "  - %s\n", p)
		}
		return 2
	}
	if rc == 0 && agg.Runs == 0 {
		fmt.Fprintln(os.Stderr, "simctl: no simulated run completed")
		return 2
	}
	if rc == 0 && !agg.Race {
		fmt.Fprintln(os.Stderr, "simctl: worker was not built with the race detector")
		return 2
	}
	return rc
}

func topN(m map[string]int, n int) map[string]int {
	type kv struct {
		k string
		v int
	}
	var s []kv
	for k, v := range m {
		s = append(s, kv{k, v})
	}
	sort.Slice(s, func(i, j int) bool {
		if s[i].v != s[j].v {
			return s[i].v > s[j].v
		}
		return s[i].k < s[j].k
	})
	out := map[string]int{}
	for i := 0; i < len(s) && i < n; i++ {
		out[s[i].k] = s[i].v
	}
	return out
}

// runReplay re-executes one replay file against the current tree.
func runReplay(cfg *config, b *built, outDir string, kf *KnownFindings) int {
	var head replayHead
	if err := readJSON(cfg.replay, &head); err != nil {
		die2("replay file: %v", err)
	}
	repeat := "1"
	if !head.Controlled || head.Flaky {
		repeat = "50"
	}
	type outcome struct {
		TraceHash  string      `json:"trace_hash"`
		Violations []Violation `json:"violations"`
		Infra      []string    `json:"infra"`
	}
	var outs []outcome
	for k := 0; k < 2; k++ {
		cmd := workerCmd(b, outDir, 3000+k, "replay", "-in", cfg.replay, "-sites", fmt.Sprint(b.nsites), "-repeat", repeat)
		timer := time.AfterFunc(15*time.Minute, func() {
			if cmd.Process != nil {
				_ = cmd.Process.Kill()
			}
		})
		out, err := cmd.Output()
		timer.Stop()
		if err != nil {
			die2("replay subprocess failed or made no progress for 15 minutes: %v", err)
		}
		var o outcome
		if err := json.Unmarshal(out, &o); err != nil {
			die2("replay output: %v", err)
		}
		outs = append(outs, o)
		if !head.Controlled || head.Flaky {
			break
		}
	}
	o := outs[0]
	fmt.Printf("geosim replay: trace_hash=%s (recorded %s) violations=%d\n", o.TraceHash, head.TraceHash, len(o.Violations))
	if len(outs) == 2 && outs[0].TraceHash != outs[1].TraceHash {
		die2("replay is not deterministic: %s vs %s", outs[0].TraceHash, outs[1].TraceHash)
	}
	if len(o.Infra) > 0 {
		die2("harness problem during replay: %v", o.Infra)
	}
	rc := 0
	for _, v := range o.Violations {
		if known, what := isKnown(kf, cfg.prop, v.Key); known {
			fmt.Printf("KNOWN-FINDING: property=%s %s — %s\n", cfg.prop, v.Key, what)
			continue
		}
		fmt.Printf("  %s: %s\n", v.Key, v.Detail)
		if v.Class != "race" {
			fmt.Printf("    interleaved: %s\n    solo:        %s\n    alone:       %s\n", v.Got, v.Want, v.Alone)
		} else {
			fmt.Println(indent(v.Report, "    "))
		}
		rc = 1
	}
	if rc == 1 {
		fmt.Printf("VIOLATION property=%s replay=%s\n", cfg.prop, cfg.replay)
	} else {
		fmt.Println("geosim replay: no violation on the current tree")
	}
	return rc
}

func indent(s, pre string) string {
	return pre + strings.ReplaceAll(s, "\n", "\n"+pre)
}
