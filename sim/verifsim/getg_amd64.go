package verifsim

func getg() uintptr
