#include "textflag.h"

// func getg() uintptr
// Returns the address of the running goroutine's g: a stable identity that the
// scheduler uses only to recognise a goroutine that is NOT one of its tasks
// (a goroutine started by the library itself) and leave it alone.
TEXT ·getg(SB),NOSPLIT,$0-8
	MOVQ (TLS), AX
	MOVQ AX, ret+0(FP)
	RET
