//go:build !amd64

package verifsim

// No goroutine identity on this architecture: stray-goroutine detection is off
// (the static scan of the instrumenter still reports `go` statements).
func getg() uintptr { return 0 }
