// Package verifsim is the deterministic scheduler runtime of the C16 simulator.
//
// It is NOT part of tidwall/geojson. simctl copies this file into a scratch
// copy of /repo (as <copy>/verifsim) and inserts calls to Yield at every
// function, function-literal and loop body of the library. The package is a
// leaf: it imports only "runtime".
//
// Execution model: "tasks" are ordinary goroutines that all execute real
// library code, but exactly one of them holds the turn at any time; the others
// are parked in a spin loop (runtime.Gosched). Which task holds the turn after
// each yield point is dictated by an explicit decision list, so a run is a pure
// function of (code, workload, decision list).
//
// Race-detector transparency: every function here is //go:norace and touches
// scheduler state with plain loads/stores only (no sync, no atomic, no
// channels). The race runtime therefore sees neither the scheduler's accesses
// nor any happens-before edge between tasks: the happens-before relation it
// works with is exactly the one created by the library's own synchronisation
// (plus "go" at task start and WaitGroup at task end, created by the driver).
// Functions marked //go:norace are never inlined into instrumented callers
// under -race (cmd/compile refuses to), so the property holds at call sites.
package verifsim

import "runtime"

// MaxTasks bounds the number of simulated caller goroutines in one run.
const MaxTasks = 64

// Modes.
const (
	ModeOff  = 0 // Yield is a pass-through (library tests, pool construction)
	ModeSolo = 1 // single caller, count steps, enforce budget (reference pass)
	ModeSim  = 2 // controlled serial scheduling of several tasks
	ModeFree = 3 // uncontrolled fallback: tasks run as free goroutines
)

// Special values of Decision.To.
const (
	ToDemote = -1 // current task drops to lowest priority (PCT change point / stall)
	ToGC     = -2 // run a garbage collection here, no task switch
)

// Decision: after Gap further preemptible yield points, do To.
// To >= 0: task To is boosted to highest priority (switch to it if alive).
//
// Hot: the gap counts only yield points at "hot" sites (right after an atomic
// operation or around a lock operation) - the places where the windows of
// lock-free and fine-grained-locking code open.
type Decision struct {
	Gap int32 `json:"g"`
	To  int32 `json:"t"`
	Hot bool  `json:"h,omitempty"`
}

// SwitchEv is one recorded task switch.
type SwitchEv struct {
	Step int64 `json:"step"`
	From int32 `json:"from"`
	To   int32 `json:"to"`
	Site int32 `json:"site"`
}

// Abort is the panic value used to unwind tasks when a run exceeds its step
// budget (a call that never returns).
type Abort struct{}

const maxKeepSwitches = 512

var (
	mode     int32
	steps    int64
	budget   int64
	softAt   int64 // solo pass: the running operation is "expensive" beyond this step count
	softHit  bool
	aborting bool

	turn   int32
	cur    int32
	ntasks int32
	alive  [MaxTasks]bool
	order  [MaxTasks]int32
	crit   [MaxTasks]int32

	gap       int64
	decisions []Decision
	di        int

	nswitch    int64
	ngc        int64
	hash       uint64
	keep       [maxKeepSwitches]SwitchEv
	nkeep      int
	inflightSw int64 // switches that happened while the preempted task was inside an operation
	inOp       [MaxTasks]bool

	siteHits    []uint32
	sitePreempt []uint32
	hotSites    []bool
	pendingHot  bool
	hotTotal    int64

	// simulated blocking on library locks (see Blocked)
	epoch      int64           // bumped on every lock release
	blockedAt  [MaxTasks]int64 // epoch at which the task last failed to acquire
	nblocked   int64           // task switches forced by a failed acquire
	deadlocked bool            // every alive task was blocked at the same epoch

	freeCounter uint32

	taskG [MaxTasks]uintptr // goroutine identity of each task
	soloG uintptr           // goroutine identity of the solo caller
	stray int64             // yields executed by goroutines that are not tasks
)

//go:norace
func mix(h uint64, v uint64) uint64 {
	h ^= v + 0x9e3779b97f4a7c15 + (h << 6) + (h >> 2)
	h *= 0xff51afd7ed558ccd
	h ^= h >> 33
	return h
}

// SetSites allocates the per-site counters (once per process).
//
//go:norace
func SetSites(n int) {
	siteHits = make([]uint32, n)
	sitePreempt = make([]uint32, n)
}

// SetHotSites marks the yield sites that follow an atomic or lock operation.
//
//go:norace
func SetHotSites(ids []int) {
	n := len(siteHits)
	for _, id := range ids {
		if id+1 > n {
			n = id + 1
		}
	}
	hotSites = make([]bool, n)
	for _, id := range ids {
		if id >= 0 {
			hotSites[id] = true
		}
	}
}

// SiteCounters returns copies of the per-site hit / preempted-at counters.
//
//go:norace
func SiteCounters() (hits []uint32, pre []uint32) {
	hits = make([]uint32, len(siteHits))
	pre = make([]uint32, len(sitePreempt))
	for i := 0; i < len(siteHits); i++ {
		hits[i] = siteHits[i]
		pre[i] = sitePreempt[i]
	}
	return
}

// SetMode switches between ModeOff / ModeSolo / ModeFree and resets counters.
// ModeSim is entered through Configure.
//
//go:norace
func SetMode(m int, stepBudget int64) {
	mode = int32(m)
	steps = 0
	budget = stepBudget
	aborting = false
	cur = 0
	turn = -1
	stray = 0
	soloG = getg()
	for i := 0; i < MaxTasks; i++ {
		crit[i] = 0
		inOp[i] = false
	}
}

// Configure prepares a controlled run: n tasks, initial priority order,
// explicit decision list, step budget. Call before starting task goroutines.
//
//go:norace
func Configure(n int, initialOrder []int32, dec []Decision, stepBudget int64) {
	mode = ModeSim
	steps = 0
	budget = stepBudget
	aborting = false
	ntasks = int32(n)
	for i := 0; i < MaxTasks; i++ {
		alive[i] = i < n
		crit[i] = 0
		inOp[i] = false
		order[i] = int32(i)
		taskG[i] = 0
	}
	stray = 0
	for i := 0; i < n && i < len(initialOrder); i++ {
		order[i] = initialOrder[i]
	}
	decisions = dec
	di = 0
	if len(dec) > 0 {
		gap = int64(dec[0].Gap)
		pendingHot = dec[0].Hot
	} else {
		gap = 1 << 62
		pendingHot = false
	}
	nswitch = 0
	ngc = 0
	nblocked = 0
	deadlocked = false
	epoch = 1
	for i := 0; i < MaxTasks; i++ {
		blockedAt[i] = 0
	}
	inflightSw = 0
	hash = 0x243f6a8885a308d3
	nkeep = 0
	turn = -1
	cur = -1
}

// Begin releases the highest-priority task. Call after all task goroutines
// have been started (they spin in WaitTurn).
//
//go:norace
func Begin() {
	n := firstAlive()
	cur = n
	turn = n
}

//go:norace
func firstAlive() int32 {
	for i := int32(0); i < ntasks; i++ {
		t := order[i]
		if alive[t] {
			return t
		}
	}
	return -1
}

//go:norace
func moveToFront(t int32) {
	pos := int32(-1)
	for i := int32(0); i < ntasks; i++ {
		if order[i] == t {
			pos = i
			break
		}
	}
	if pos <= 0 {
		return
	}
	for i := pos; i > 0; i-- {
		order[i] = order[i-1]
	}
	order[0] = t
}

//go:norace
func moveToBack(t int32) {
	pos := int32(-1)
	for i := int32(0); i < ntasks; i++ {
		if order[i] == t {
			pos = i
			break
		}
	}
	if pos < 0 || pos == ntasks-1 {
		return
	}
	for i := pos; i < ntasks-1; i++ {
		order[i] = order[i+1]
	}
	order[ntasks-1] = t
}

// WaitTurn parks the calling task goroutine until it holds the turn.
//
//go:norace
func WaitTurn(id int) {
	if mode != ModeSim {
		return
	}
	me := int32(id)
	taskG[me] = getg()
	for turn != me {
		runtime.Gosched()
	}
	if aborting {
		panic(Abort{})
	}
}

// Finish marks the current task as finished and hands the turn to the
// highest-priority task still alive. Must be called exactly once per task, by
// the task itself, as its last action.
//
//go:norace
func Finish(id int) {
	if mode != ModeSim {
		return
	}
	me := int32(id)
	alive[me] = false
	crit[me] = 0
	inOp[me] = false
	n := firstAlive()
	if n >= 0 {
		hash = mix(hash, uint64(steps)<<20^uint64(me)<<12^uint64(n)<<4^1)
	}
	cur = n
	turn = n
}

// Yield is the seam: called by generated code at every function / loop body of
// the library and by the driver's callbacks and operation boundaries.
//
//go:norace
func Yield(site int) {
	m := mode
	if m == ModeOff {
		return
	}
	if m == ModeFree {
		freeCounter++
		if freeCounter&63 == 0 {
			runtime.Gosched()
		}
		return
	}
	if g := getg(); g != 0 {
		// A goroutine that is not the task holding the turn (one started by
		// the library itself) is left alone: it runs freely, the run is
		// flagged, and the driver repeats it in uncontrolled mode.
		if m == ModeSolo {
			if g != soloG {
				stray++
				return
			}
		} else if c := cur; c < 0 || taskG[c] != g {
			stray++
			return
		}
	}
	steps++
	if site < len(siteHits) {
		siteHits[site]++
	}
	if site < len(hotSites) && hotSites[site] {
		hotTotal++
	}
	if steps > budget {
		aborting = true
		panic(Abort{})
	}
	if m == ModeSolo {
		if steps > softAt {
			softHit = true
		}
		return
	}
	me := cur
	if me < 0 || crit[me] > 0 {
		return
	}
	if pendingHot && !(site < len(hotSites) && hotSites[site]) {
		return
	}
	gap--
	if gap > 0 {
		return
	}
	// consume one decision
	d := decisions[di]
	di++
	if di < len(decisions) {
		g := int64(decisions[di].Gap)
		if g < 1 {
			g = 1
		}
		gap = g
		pendingHot = decisions[di].Hot
	} else {
		gap = 1 << 62
		pendingHot = false
	}
	if d.To == ToGC {
		ngc++
		hash = mix(hash, uint64(steps)<<20^0xfffff)
		runtime.GC()
		return
	}
	if d.To == ToDemote {
		moveToBack(me)
	} else if d.To >= 0 && d.To < ntasks && alive[d.To] {
		moveToFront(d.To)
	} else {
		return
	}
	n := firstAlive()
	if n == me || n < 0 {
		return
	}
	// switch
	nswitch++
	if inOp[me] {
		inflightSw++
	}
	if site < len(sitePreempt) {
		sitePreempt[site]++
	}
	hash = mix(hash, uint64(steps)<<20^uint64(me)<<12^uint64(n)<<4)
	hash = mix(hash, uint64(site))
	if nkeep < maxKeepSwitches {
		keep[nkeep] = SwitchEv{Step: steps, From: me, To: n, Site: int32(site)}
		nkeep++
	}
	cur = n
	turn = n
	for turn != me {
		runtime.Gosched()
	}
	if aborting {
		panic(Abort{})
	}
}

// Blocked is called by generated code when a TryLock on a library mutex failed:
// `mu.Lock()` is rewritten to `for !mu.TryLock() { verifsim.Blocked(site) }`.
// The scheduler, not the Go runtime, owns blocking: the task is switched out
// until some lock is released; a task parked while holding a lock can therefore
// never block another task for real, and if every alive task is blocked with no
// release in between, the run has deadlocked (reported, not hung).
//
//go:norace
func Blocked(site int) {
	if mode != ModeSim {
		if mode == ModeSolo {
			// a lone caller that cannot take a lock waits for itself
			steps++
			if steps > budget {
				aborting = true
				panic(Abort{})
			}
		}
		runtime.Gosched()
		return
	}
	if !isCurrent() {
		runtime.Gosched()
		return
	}
	steps++
	if site < len(siteHits) {
		siteHits[site]++
	}
	if site < len(hotSites) && hotSites[site] {
		hotTotal++
	}
	if steps > budget {
		aborting = true
		panic(Abort{})
	}
	me := cur
	blockedAt[me] = epoch
	n := int32(-1)
	for i := int32(0); i < ntasks; i++ {
		t := order[i]
		if t != me && alive[t] && blockedAt[t] != epoch {
			n = t
			break
		}
	}
	if n < 0 {
		if stray > 0 {
			// a goroutine the scheduler does not own may hold the lock
			runtime.Gosched()
			return
		}
		deadlocked = true
		aborting = true
		panic(Abort{})
	}
	nblocked++
	nswitch++
	hash = mix(hash, uint64(steps)<<20^uint64(me)<<12^uint64(n)<<4^2)
	if nkeep < maxKeepSwitches {
		keep[nkeep] = SwitchEv{Step: steps, From: me, To: n, Site: int32(site)}
		nkeep++
	}
	cur = n
	turn = n
	for turn != me {
		runtime.Gosched()
	}
	if aborting {
		panic(Abort{})
	}
}

// Released is called by generated code right after a library lock was released.
//
//go:norace
func Released() {
	if mode == ModeSim {
		epoch++
	}
}

// Crit brackets regions in which the current task must not be preempted
// (library-held locks, sync.Once bodies): a task parked while holding a real
// lock would block the next task for real and hang the simulation.
//
//go:norace
func Crit(delta int) {
	if mode != ModeSim && mode != ModeSolo {
		return
	}
	me := cur
	if me < 0 || !isCurrent() {
		return
	}
	crit[me] += int32(delta)
	if crit[me] < 0 {
		crit[me] = 0
	}
}

// InCrit reports whether the current task is inside a no-preempt region.
//
//go:norace
func InCrit() bool {
	if mode != ModeSim && mode != ModeSolo {
		return false
	}
	me := cur
	return me >= 0 && isCurrent() && crit[me] > 0
}

// isCurrent reports whether the calling goroutine is the one the scheduler
// believes is running.
//
//go:norace
func isCurrent() bool {
	g := getg()
	if g == 0 {
		return true
	}
	if mode == ModeSolo {
		return g == soloG
	}
	c := cur
	return c >= 0 && taskG[c] == g
}

// OpBoundary tells the scheduler whether the current task is inside an
// operation (for the "preempted in flight" statistic) and clears a stale
// no-preempt count left behind by a panic that unwound a bracketed region.
//
//go:norace
func OpBoundary(in bool) {
	if mode != ModeSim && mode != ModeSolo {
		return
	}
	me := cur
	if me < 0 {
		return
	}
	inOp[me] = in
	if !in {
		crit[me] = 0
	}
}

// Stray returns the number of yields executed by non-task goroutines.
//
//go:norace
func Stray() int64 { return stray }

// SetOpBudget lets the current caller execute at most n further yield points
// before the run is unwound (solo pass: one budget per operation).
//
//go:norace
func SetOpBudget(n int64) { budget = steps + n; aborting = false; softAt = 1 << 62; softHit = false }

// SetOpBudgets is SetOpBudget with a soft limit as well: an operation that
// passes it is merely flagged (SoftExceeded) and allowed to finish, so that an
// expensive but terminating call is never unwound out of library code.
//
//go:norace
func SetOpBudgets(soft, hard int64) {
	budget = steps + hard
	softAt = steps + soft
	softHit = false
	aborting = false
}

// SoftExceeded reports whether the operation running since the last
// SetOpBudgets call passed its soft limit.
//
//go:norace
func SoftExceeded() bool { return softHit }

// Charge advances the logical clock by n without being a yield point: the
// driver charges for its own per-callback and per-byte work so that step
// budgets bound the real cost of a run deterministically.
//
//go:norace
func Charge(n int) {
	if (mode == ModeSim || mode == ModeSolo) && isCurrent() {
		steps += int64(n)
	}
}

// HotTotal returns the number of hot yield points executed since process start
// (never reset; callers take differences).
//
//go:norace
func HotTotal() int64 { return hotTotal }

// Steps returns the global logical clock (yield points executed so far).
//
//go:norace
func Steps() int64 { return steps }

// Mode returns the current mode.
//
//go:norace
func Mode() int { return int(mode) }

// Aborting reports whether the run is being unwound for exceeding its budget.
//
//go:norace
func Aborting() bool { return aborting }

// Result of a controlled run.
type RunStats struct {
	Steps      int64
	Switches   int64
	InFlightSw int64
	GCs        int64
	Hash       uint64
	Consumed   int // decisions consumed
	Stray      int64
	Blocked    int64 // task switches forced by a failed lock acquire
	Deadlock   bool
	Kept       []SwitchEv
}

// Stats snapshots the scheduler statistics of the run that just ended.
//
//go:norace
func Stats() RunStats {
	var r RunStats
	r.Steps = steps
	r.Switches = nswitch
	r.InFlightSw = inflightSw
	r.GCs = ngc
	r.Hash = hash
	r.Consumed = di
	r.Stray = stray
	r.Blocked = nblocked
	r.Deadlock = deadlocked
	r.Kept = make([]SwitchEv, nkeep)
	for i := 0; i < nkeep; i++ {
		r.Kept[i] = keep[i]
	}
	return r
}
