package main

import (
	"fmt"
	"math"
	"os"
	"strconv"
	"strings"

	"github.com/tidwall/geojson"
	"github.com/tidwall/geojson/geometry"
)

func (o ParseOpts) toLib() *geojson.ParseOptions {
	return &geojson.ParseOptions{
		IndexChildren:     o.IndexChildren,
		IndexGeometry:     o.IndexGeometry,
		IndexGeometryKind: geometry.IndexKind(o.IndexGeometryKind),
		RequireValid:      o.RequireValid,
		AllowSimplePoints: o.AllowSimplePoints,
		DisableCircleType: o.DisableCircleType,
		AllowRects:        o.AllowRects,
	}
}

func (o ParseOpts) toIndexOpts() *geometry.IndexOptions {
	return &geometry.IndexOptions{Kind: geometry.IndexKind(o.IndexGeometryKind), MinPoints: o.IndexGeometry}
}

func q64(v float64) float64 { return math.Round(v*64) / 64 }

// ringPts returns a closed star-shaped ring (first point repeated at the end).
func ringPts(sh Shape) []geometry.Point {
	n := sh.N
	if n < 3 {
		n = 3
	}
	r := NewRng(sh.Seed ^ 0xabcdef)
	pts := make([]geometry.Point, 0, n+1)
	for i := 0; i < n; i++ {
		th := 2 * math.Pi * float64(i) / float64(n)
		rad := sh.R
		if sh.Jag > 0 {
			rad = sh.R * (1 - sh.Jag*r.Float())
		}
		x := sh.Cx + rad*math.Cos(th)
		y := sh.Cy + rad*math.Sin(th)
		if sh.Lattice {
			x, y = math.Round(x), math.Round(y)
		} else {
			x, y = q64(x), q64(y)
		}
		pts = append(pts, geometry.Point{X: x, Y: y})
	}
	pts = append(pts, pts[0])
	return pts
}

// ringPtsExact is ringPts without the 1/64 rounding (tiny holes would collapse).
func ringPtsExact(sh Shape) []geometry.Point {
	n := sh.N
	if n < 3 {
		n = 3
	}
	pts := make([]geometry.Point, 0, n+1)
	for i := 0; i < n; i++ {
		th := 2 * math.Pi * float64(i) / float64(n)
		pts = append(pts, geometry.Point{X: sh.Cx + sh.R*math.Cos(th), Y: sh.Cy + sh.R*math.Sin(th)})
	}
	pts = append(pts, pts[0])
	return pts
}

func holePts(sh Shape, k int) []geometry.Point {
	h := sh
	h.Jag = 0
	h.Seed = sh.Seed + uint64(k) + 1
	h.N = 4 + (sh.N/4)%9
	if sh.Holes > 2 {
		// many holes: a grid of small ones inside the inscribed square
		side := 1
		for side*side < sh.Holes {
			side++
		}
		half := sh.R * (1 - sh.Jag) * 0.5
		cell := 2 * half / float64(side)
		h.N = 4
		h.Lattice = false
		h.R = cell * 0.3
		h.Cx = sh.Cx - half + cell*(float64(k%side)+0.5)
		h.Cy = sh.Cy - half + cell*(float64(k/side)+0.5)
		return ringPtsExact(h)
	}
	if sh.Holes <= 1 {
		h.R = sh.R * (1 - sh.Jag) * 0.45
	} else {
		h.R = sh.R * (1 - sh.Jag) * 0.2
		off := sh.R * (1 - sh.Jag) * 0.4
		if k%2 == 0 {
			h.Cx = sh.Cx - off
		} else {
			h.Cx = sh.Cx + off
		}
	}
	if h.R < 1.0/16 {
		h.R = 1.0 / 16
	}
	return ringPts(h)
}

func rectPts(sh Shape) (min, max geometry.Point) {
	w := sh.R
	if w <= 0 {
		w = 1
	}
	h := sh.R * (0.5 + sh.Jag)
	if h <= 0 {
		h = 1
	}
	min = geometry.Point{X: q64(sh.Cx - w), Y: q64(sh.Cy - h)}
	max = geometry.Point{X: q64(sh.Cx + w), Y: q64(sh.Cy + h)}
	return
}

// linePts returns an open zigzag line.
func linePts(sh Shape) []geometry.Point {
	n := sh.N
	if n < 2 {
		n = 2
	}
	r := NewRng(sh.Seed ^ 0x1234567)
	pts := make([]geometry.Point, 0, n)
	for i := 0; i < n; i++ {
		t := float64(i) / float64(n-1)
		x := sh.Cx - sh.R + 2*sh.R*t
		y := sh.Cy + sh.R*sh.Jag*(2*r.Float()-1)
		if sh.Lattice {
			x, y = math.Round(x), math.Round(y)
		} else {
			x, y = q64(x), q64(y)
		}
		pts = append(pts, geometry.Point{X: x, Y: y})
	}
	return pts
}

// scatterPts returns n points inside the disc.
func scatterPts(sh Shape) []geometry.Point {
	n := sh.N
	if n < 1 {
		n = 1
	}
	r := NewRng(sh.Seed ^ 0x7777)
	pts := make([]geometry.Point, 0, n)
	for i := 0; i < n; i++ {
		x := sh.Cx + sh.R*(2*r.Float()-1)
		y := sh.Cy + sh.R*(2*r.Float()-1)
		if sh.Lattice {
			x, y = math.Round(x), math.Round(y)
		} else {
			x, y = q64(x), q64(y)
		}
		pts = append(pts, geometry.Point{X: x, Y: y})
	}
	return pts
}

func ff(v float64) string { return strconv.FormatFloat(v, 'g', -1, 64) }

func extraVal(i, d int) float64 { return float64((i*7+d*3)%23) - 5.5 }

func appendCoord(sb *strings.Builder, p geometry.Point, dims, idx int) {
	sb.WriteByte('[')
	sb.WriteString(ff(p.X))
	sb.WriteByte(',')
	sb.WriteString(ff(p.Y))
	for d := 2; d < dims; d++ {
		sb.WriteByte(',')
		sb.WriteString(ff(extraVal(idx, d)))
	}
	sb.WriteByte(']')
}

func appendCoordList(sb *strings.Builder, pts []geometry.Point, dims int, base int) {
	sb.WriteByte('[')
	for i, p := range pts {
		if i > 0 {
			sb.WriteByte(',')
		}
		appendCoord(sb, p, dims, base+i)
	}
	sb.WriteByte(']')
}

func polyRings(sh Shape) [][]geometry.Point {
	rings := [][]geometry.Point{ringPts(sh)}
	for k := 0; k < sh.Holes; k++ {
		rings = append(rings, holePts(sh, k))
	}
	return rings
}

func appendPolyCoords(sb *strings.Builder, sh Shape, dims int) {
	sb.WriteByte('[')
	base := 0
	for i, ring := range polyRings(sh) {
		if i > 0 {
			sb.WriteByte(',')
		}
		appendCoordList(sb, ring, dims, base)
		base += len(ring)
	}
	sb.WriteByte(']')
}

func dimsOf(r *Recipe) int {
	if r.Dims < 2 {
		return 2
	}
	if r.Dims > 4 {
		return 4
	}
	return r.Dims
}

func appendMembers(sb *strings.Builder, r *Recipe) {
	if r.Members != "" {
		sb.WriteByte(',')
		sb.WriteString(r.Members)
	}
}

// recipeJSON renders the GeoJSON text of a recipe.
func recipeJSON(r *Recipe, sb *strings.Builder) {
	dims := dimsOf(r)
	switch r.Kind {
	case "Point", "SimplePoint":
		sb.WriteString(`{"type":"Point","coordinates":`)
		if r.Shape.Units == "null-x" {
			sb.WriteString(`[null,` + ff(q64(r.Shape.Cy)) + `]`)
			appendMembers(sb, r)
			sb.WriteByte('}')
			return
		}
		appendCoord(sb, geometry.Point{X: q64(r.Shape.Cx), Y: q64(r.Shape.Cy)}, dims, 0)
		appendMembers(sb, r)
		sb.WriteByte('}')
	case "LineString":
		sb.WriteString(`{"type":"LineString","coordinates":`)
		appendCoordList(sb, linePts(r.Shape), dims, 0)
		appendMembers(sb, r)
		sb.WriteByte('}')
	case "Polygon":
		sb.WriteString(`{"type":"Polygon","coordinates":`)
		appendPolyCoords(sb, r.Shape, dims)
		appendMembers(sb, r)
		sb.WriteByte('}')
	case "Rect":
		min, max := rectPts(r.Shape)
		sb.WriteString(`{"type":"Polygon","coordinates":[[`)
		for i, p := range []geometry.Point{min, {X: max.X, Y: min.Y}, max, {X: min.X, Y: max.Y}, min} {
			if i > 0 {
				sb.WriteByte(',')
			}
			appendCoord(sb, p, 2, 0)
		}
		sb.WriteString(`]]`)
		appendMembers(sb, r)
		sb.WriteByte('}')
	case "Circle":
		sb.WriteString(`{"type":"Feature","geometry":{"type":"Point","coordinates":`)
		appendCoord(sb, geometry.Point{X: q64(r.Shape.Cx), Y: q64(r.Shape.Cy)}, 2, 0)
		sb.WriteString(`},"properties":{"type":"Circle","radius":`)
		m := r.Shape.Meters
		units := r.Shape.Units
		if units == "km" {
			m = m / 1000
		}
		sb.WriteString(ff(m))
		if units != "" {
			sb.WriteString(`,"radius_units":"` + units + `"`)
		}
		sb.WriteString(`}}`)
	case "MultiPoint":
		sb.WriteString(`{"type":"MultiPoint","coordinates":`)
		appendCoordList(sb, scatterPts(r.Shape), dims, 0)
		appendMembers(sb, r)
		sb.WriteByte('}')
	case "MultiLineString":
		sb.WriteString(`{"type":"MultiLineString","coordinates":[`)
		for i := range r.Children {
			if i > 0 {
				sb.WriteByte(',')
			}
			appendCoordList(sb, linePts(r.Children[i].Shape), dims, 0)
		}
		sb.WriteByte(']')
		appendMembers(sb, r)
		sb.WriteByte('}')
	case "MultiPolygon":
		sb.WriteString(`{"type":"MultiPolygon","coordinates":[`)
		for i := range r.Children {
			if i > 0 {
				sb.WriteByte(',')
			}
			appendPolyCoords(sb, r.Children[i].Shape, dims)
		}
		sb.WriteByte(']')
		appendMembers(sb, r)
		sb.WriteByte('}')
	case "GeometryCollection":
		sb.WriteString(`{"type":"GeometryCollection","geometries":[`)
		for i := range r.Children {
			if i > 0 {
				sb.WriteByte(',')
			}
			recipeJSON(&r.Children[i], sb)
		}
		sb.WriteByte(']')
		appendMembers(sb, r)
		sb.WriteByte('}')
	case "FeatureCollection":
		sb.WriteString(`{"type":"FeatureCollection","features":[`)
		for i := range r.Children {
			if i > 0 {
				sb.WriteByte(',')
			}
			recipeJSON(&r.Children[i], sb)
		}
		sb.WriteByte(']')
		appendMembers(sb, r)
		sb.WriteByte('}')
	case "Feature":
		sb.WriteString(`{"type":"Feature","geometry":`)
		if len(r.Children) > 0 {
			recipeJSON(&r.Children[0], sb)
		} else {
			sb.WriteString(`{"type":"Point","coordinates":[0,0]}`)
		}
		appendMembers(sb, r)
		sb.WriteByte('}')
	default:
		sb.WriteString(`{"type":"Point","coordinates":[0,0]}`)
	}
}

type buildStats struct {
	errors int
	panics int
}

// buildObject builds one object from its recipe. It never fails: a recipe the
// library rejects (e.g. RequireValid) yields a fixed stand-in point, the same
// in every pool built from the recipe.
// buildDerived builds objects out of PARTS of other geometry-level objects,
// all through the public API: the result of Move, or a struct literal that
// reuses another polygon's rings (geometry.Poly has exported fields).
func buildDerived(r *Recipe) geojson.Object {
	sh := r.Shape
	dx, dy := q64(sh.Meters), q64(float64(sh.Steps)/8)
	switch r.Kind {
	case "LineString":
		base := sh
		base.Cx, base.Cy = sh.Cx-dx, sh.Cy-dy
		return geojson.NewLineString(geometry.NewLine(linePts(base), r.Opts.toIndexOpts()).Move(dx, dy))
	case "Polygon":
		if sh.N == 0 {
			return nil
		}
		base := sh
		if r.Via == "move" {
			base.Cx, base.Cy = sh.Cx-dx, sh.Cy-dy
		}
		rings := polyRings(base)
		p := geometry.NewPoly(rings[0], rings[1:], r.Opts.toIndexOpts())
		if r.Via == "move" {
			return geojson.NewPolygon(p.Move(dx, dy))
		}
		// "literal": a Poly assembled by hand from the rings of p
		return geojson.NewPolygon(&geometry.Poly{Exterior: p.Exterior, Holes: p.Holes})
	}
	return nil
}

func buildObject(r *Recipe, st *buildStats) (obj geojson.Object) {
	// A constructor that panics on this input is C05's business (input-only,
	// same on every schedule): the object is replaced by the stand-in in every
	// pool built from the recipe, and counted.
	defer func() {
		if p := recover(); p != nil {
			st.errors++
			st.panics++
			obj = geojson.NewPoint(geometry.Point{X: 1, Y: 1})
		}
	}()
	if r.Via == "world" {
		// the exported package-level polygon every user shares
		return geojson.NewPolygon(geometry.WorldPolygon)
	}
	if r.Via == "move" || r.Via == "literal" {
		if o := buildDerived(r); o != nil {
			return o
		}
	}
	if r.Via == "ctor" || r.Via == "move" || r.Via == "literal" {
		if o := buildCtor(r, st); o != nil {
			return o
		}
	}
	var sb strings.Builder
	recipeJSON(r, &sb)
	o, err := geojson.Parse(styleJSON(sb.String(), r.Style), r.Opts.toLib())
	if err != nil || o == nil {
		st.errors++
		if debugSolo {
			fmt.Fprintf(os.Stderr, "build: parse error %v style=%d kind=%s rv=%v text=%.300s\n", err, r.Style, r.Kind, r.Opts.RequireValid, styleJSON(sb.String(), r.Style))
		}
		return geojson.NewPoint(geometry.Point{X: 1, Y: 1})
	}
	return o
}

func buildCtor(r *Recipe, st *buildStats) geojson.Object {
	sh := r.Shape
	center := geometry.Point{X: q64(sh.Cx), Y: q64(sh.Cy)}
	switch r.Kind {
	case "Point":
		if dimsOf(r) >= 3 {
			return geojson.NewPointZ(center, extraVal(0, 2))
		}
		return geojson.NewPoint(center)
	case "SimplePoint":
		return geojson.NewSimplePoint(center)
	case "LineString":
		return geojson.NewLineString(geometry.NewLine(linePts(sh), r.Opts.toIndexOpts()))
	case "Polygon":
		if sh.N == 0 {
			return geojson.NewPolygon(nil)
		}
		rings := polyRings(sh)
		return geojson.NewPolygon(geometry.NewPoly(rings[0], rings[1:], r.Opts.toIndexOpts()))
	case "Rect":
		min, max := rectPts(sh)
		return geojson.NewRect(geometry.Rect{Min: min, Max: max})
	case "Circle":
		return geojson.NewCircle(center, sh.Meters, sh.Steps)
	case "MultiPoint":
		return geojson.NewMultiPoint(scatterPts(sh))
	case "MultiLineString":
		lines := make([]*geometry.Line, 0, len(r.Children))
		for i := range r.Children {
			lines = append(lines, geometry.NewLine(linePts(r.Children[i].Shape), r.Opts.toIndexOpts()))
		}
		return geojson.NewMultiLineString(lines)
	case "MultiPolygon":
		polys := make([]*geometry.Poly, 0, len(r.Children))
		for i := range r.Children {
			rings := polyRings(r.Children[i].Shape)
			polys = append(polys, geometry.NewPoly(rings[0], rings[1:], r.Opts.toIndexOpts()))
		}
		return geojson.NewMultiPolygon(polys)
	case "GeometryCollection":
		objs := make([]geojson.Object, 0, len(r.Children))
		for i := range r.Children {
			objs = append(objs, buildObject(&r.Children[i], st))
		}
		return geojson.NewGeometryCollection(objs)
	case "FeatureCollection":
		objs := make([]geojson.Object, 0, len(r.Children))
		for i := range r.Children {
			objs = append(objs, buildObject(&r.Children[i], st))
		}
		return geojson.NewFeatureCollection(objs)
	case "Feature":
		var base geojson.Object
		if len(r.Children) > 0 {
			base = buildObject(&r.Children[0], st)
		} else {
			base = geojson.NewPoint(geometry.Point{})
		}
		m := ""
		if r.Members != "" {
			m = "{" + r.Members + "}"
		}
		return geojson.NewFeature(base, m)
	}
	return nil
}

// applyKnobs sets the library's exported configuration variables for a run and
// returns a function restoring them.
func applyKnobs(k Knobs) func() {
	if !k.Set {
		return func() {}
	}
	oldIdx := *geometry.DefaultIndexOptions
	oldParse := *geojson.DefaultParseOptions
	geometry.DefaultIndexOptions.Kind = geometry.IndexKind(k.IdxKind)
	geometry.DefaultIndexOptions.MinPoints = k.IdxMin
	*geojson.DefaultParseOptions = *k.DefParse.toLib()
	return func() {
		*geometry.DefaultIndexOptions = oldIdx
		*geojson.DefaultParseOptions = oldParse
	}
}

func buildPool(s *Spec, st *buildStats) []geojson.Object {
	pool := make([]geojson.Object, len(s.Pool))
	for i := range s.Pool {
		progressBump()
		rc := &s.Pool[i]
		if rc.Via == "share" {
			pool[i] = buildShared(rc, pool[:i])
			continue
		}
		pool[i] = buildObject(rc, st)
	}
	return pool
}

// buildShared wraps already built pool objects (no copy): the same child is
// then reachable through two parents and as a top-level object.
func buildShared(rc *Recipe, earlier []geojson.Object) (obj geojson.Object) {
	defer func() {
		if p := recover(); p != nil {
			obj = geojson.NewPoint(geometry.Point{X: 2, Y: 2})
		}
	}()
	var kids []geojson.Object
	for _, k := range rc.Refs {
		if k >= 0 && k < len(earlier) && earlier[k] != nil {
			kids = append(kids, earlier[k])
		}
	}
	if len(kids) == 0 {
		return geojson.NewPoint(geometry.Point{X: 2, Y: 2})
	}
	switch rc.Kind {
	case "Rewrap":
		// a second wrapper around the SAME geometry-level object: the Poly/Line
		// struct is copied by value, its rings (pointers) are shared
		switch v := kids[0].(type) {
		case *geojson.Polygon:
			return geojson.NewPolygon(v.Base())
		case *geojson.LineString:
			return geojson.NewLineString(v.Base())
		case *geojson.Circle:
			if p, ok := v.Polygon().(*geojson.Polygon); ok {
				return geojson.NewPolygon(p.Base())
			}
		case *geojson.Feature:
			return geojson.NewFeature(v.Base(), "")
		}
		return geojson.NewFeature(kids[0], "")
	case "Feature":
		m := ""
		if rc.Members != "" {
			m = "{" + rc.Members + "}"
		}
		return geojson.NewFeature(kids[0], m)
	case "GeometryCollection":
		return geojson.NewGeometryCollection(kids)
	default:
		return geojson.NewFeatureCollection(kids)
	}
}

// styleJSON re-renders compact JSON text in another textual style without
// changing its value: whitespace between tokens, the top-level "type" member
// moved to the end, numbers in exponent notation.
func styleJSON(js string, style int) string {
	if style == 0 {
		return js
	}
	ws := style == 1 || style == 4
	typeLast := style == 2 || style == 4
	expo := style == 3 || style == 4
	if typeLast {
		// top-level object starts with {"type":"X", ... } (recipeJSON always emits type first)
		const pre = `{"type":"`
		if strings.HasPrefix(js, pre) {
			if k := strings.Index(js[len(pre):], `",`); k > 0 {
				typ := js[len(pre) : len(pre)+k]
				rest := js[len(pre)+k+2 : len(js)-1]
				js = "{" + rest + `,"type":"` + typ + `"}`
			}
		}
	}
	if !ws && !expo {
		return js
	}
	var out strings.Builder
	inStr := false
	for i := 0; i < len(js); i++ {
		c := js[i]
		if inStr {
			out.WriteByte(c)
			if c == '\\' && i+1 < len(js) {
				i++
				out.WriteByte(js[i])
			} else if c == '"' {
				inStr = false
			}
			continue
		}
		switch {
		case c == '"':
			inStr = true
			out.WriteByte(c)
		case expo && (c == '-' || (c >= '0' && c <= '9')):
			j := i
			for j < len(js) && (js[j] == '-' || js[j] == '+' || js[j] == '.' || js[j] == 'e' || js[j] == 'E' || (js[j] >= '0' && js[j] <= '9')) {
				j++
			}
			if f, err := strconv.ParseFloat(js[i:j], 64); err == nil {
				out.WriteString(strconv.FormatFloat(f, 'e', -1, 64))
			} else {
				out.WriteString(js[i:j])
			}
			i = j - 1
		case ws && (c == ',' || c == ':'):
			out.WriteByte(c)
			out.WriteString(" ")
		case ws && (c == '{' || c == '['):
			out.WriteByte(c)
			out.WriteString("\n  ")
		case ws && (c == '}' || c == ']'):
			out.WriteString(" \t")
			out.WriteByte(c)
		default:
			out.WriteByte(c)
		}
	}
	return out.String()
}
