package main

import (
	"encoding/json"
	"fmt"
	"math"
	"os"
	"sort"
	"strings"

	"github.com/tidwall/geojson/verifsim"
)

// tierParams bound what a generated run looks like.
type tierParams struct {
	poolMin, poolMax int
	ringSmall        []int
	ringLarge        []int
	largeP           float64
	maxTasks         int
	maxOps           int
	bigChildren      []int
}

func paramsFor(tier string) tierParams {
	if tier == "thorough" {
		return tierParams{
			poolMin: 4, poolMax: 12,
			ringSmall: []int{3, 4, 5, 6, 8, 12, 16, 17, 24, 40, 63},
			ringLarge: []int{64, 65, 100, 200, 400, 900, 2000, 64, 100, 200, 5000},
			largeP:    0.3,
			maxTasks:  6, maxOps: 20,
			bigChildren: []int{64, 65, 80, 130},
		}
	}
	return tierParams{
		poolMin: 4, poolMax: 9,
		ringSmall: []int{3, 4, 5, 6, 8, 12, 16, 17, 24, 40},
		ringLarge: []int{64, 65, 100, 200, 64, 65, 100, 200, 64, 100, 1030},
		largeP:    0.2,
		maxTasks:  5, maxOps: 12,
		// sizes straddle plausible thresholds (64 is the library default; powers
		// of two up to 4096), larger ones rarer
		bigChildren: []int{64, 70},
	}
}

var geomKinds = []string{"Point", "SimplePoint", "LineString", "Polygon", "Rect", "Circle", "MultiPoint", "MultiLineString", "MultiPolygon"}
var allKinds = []string{"Point", "SimplePoint", "LineString", "Polygon", "Rect", "Circle", "MultiPoint", "MultiLineString", "MultiPolygon", "GeometryCollection", "Feature", "FeatureCollection"}

var featureMembers = []string{
	`"id":"dup","properties":{"a":1},"properties":{"b":[2,{"c":"` + strings.Repeat("long-", 60) + `"}]}`,
	`"properties":{"deep":{"a":{"b":{"c":{"d":{"e":[[[[1]]]]}}}}},"s":"tab\tquote\"uni\u00e9"},"bbox":[-10,-10,10,10]`,
	``,
	`"properties":{}`,
	`"id":"f1","properties":{"name":"x","n":[1,2,{"a":null}]}`,
	`"bbox":[-1,-1,1,1],"properties":{"k":1}`,
	`"id":7`,
	`"properties":{"type":"NotCircle","radius":5},"foreign":"é\"q"`,
}

var geomMembers = []string{
	`"bbox":[0,0,1,1]`,
	`"foo":{"bar":[1,2,3]}`,
	`"id":"g","crs":null`,
}

// forceShape (development aid, $GEOSIM_FORCE_SHAPE=sweep|crowd|marathon|argstorm|duel):
// every run gets that workload shape. Never set by the registered checks.
var forceShape = func() int {
	switch os.Getenv("GEOSIM_FORCE_SHAPE") {
	case "sweep":
		return 0
	case "crowd":
		return 8
	case "marathon":
		return 12
	case "argstorm":
		return 16
	case "duel":
		return 21
	}
	return -1
}()

type gen struct {
	r    *Rng
	tp   tierParams
	base ParseOpts
}

func (g *gen) parseOpts() ParseOpts {
	r := g.r
	return ParseOpts{
		IndexChildren:     r.Pick(0, 1, 3, 64, 64),
		IndexGeometry:     r.Pick(0, 1, 4, 64, 64),
		IndexGeometryKind: r.Pick(0, 1, 2, 2),
		RequireValid:      r.Chance(0.1),
		AllowSimplePoints: r.Chance(0.5),
		DisableCircleType: r.Chance(0.15),
		AllowRects:        r.Chance(0.5),
	}
}

// stratified draws one object with every structural dimension sampled
// uniformly over its classes: kind family, size class, provenance, index
// configuration, hole class, child-count class.
// edgeCase draws an object from a catalogue of degenerate inputs: the branches
// of the library that special-case them are otherwise almost never taken.
func (g *gen) edgeCase() Recipe {
	r := g.r
	opts := g.parseOpts()
	opts.RequireValid = false
	base := g.shape(true)
	mk := func(kind, via string) Recipe { return Recipe{Kind: kind, Via: via, Opts: opts, Shape: base} }
	switch r.Intn(12) {
	case 0: // empty collection of some kind
		return mk(r.PickS("MultiPoint", "MultiLineString", "MultiPolygon", "GeometryCollection", "FeatureCollection"), r.PickS("parse", "ctor"))
	case 1: // NewPolygon(nil)
		rc := mk("Polygon", "ctor")
		rc.Shape.N = 0
		return rc
	case 2: // circle of radius zero
		rc := mk("Circle", r.PickS("parse", "ctor"))
		rc.Shape.Meters, rc.Shape.Steps = 0, r.Pick(3, 12, 64)
		return rc
	case 3: // negative or absurdly large radius (constructor only)
		rc := mk("Circle", "ctor")
		rc.Shape.Meters, rc.Shape.Steps = r.PickF(-5, -1e6, 3e7, 1e12), r.Pick(3, 12, 64)
		return rc
	case 4: // Feature around an empty collection
		rc := mk("Feature", r.PickS("parse", "ctor"))
		rc.Children = []Recipe{mk(r.PickS("MultiPolygon", "GeometryCollection", "MultiPoint"), "parse")}
		rc.Members = featureMembers[r.Intn(len(featureMembers))]
		return rc
	case 5: // collection whose children are all empty
		rc := mk("GeometryCollection", "ctor")
		for i := r.Range(1, 4); i > 0; i-- {
			ch := mk("Polygon", "ctor")
			ch.Shape.N = 0
			rc.Children = append(rc.Children, ch)
		}
		return rc
	case 6: // line with identical points (R = 0, no jitter)
		rc := mk("LineString", r.PickS("parse", "ctor"))
		rc.Shape.R, rc.Shape.Jag, rc.Shape.N = 0, 0, r.Pick(2, 3, 70)
		return rc
	case 7: // ring whose points are all collinear / coincide
		rc := mk("Polygon", r.PickS("parse", "ctor"))
		rc.Shape.R, rc.Shape.N = 0, r.Pick(3, 4, 70)
		return rc
	case 8: // zero-area rectangle
		rc := mk("Rect", "ctor")
		rc.Shape.R = 0
		return rc
	case 9: // coordinates far outside the valid range
		rc := mk(r.PickS("Polygon", "LineString", "Point", "MultiPoint"), r.PickS("parse", "ctor"))
		rc.Shape.Cx, rc.Shape.Cy, rc.Shape.N = r.PickF(-500, 400, 1e6), r.PickF(-200, 95, 1e6), r.Pick(4, 12)
		return rc
	case 10: // point with a JSON null coordinate (NaN)
		rc := mk("Point", "parse")
		rc.Shape.Units = "null-x"
		return rc
	}
	// polygon with a hole that is larger than its exterior (hole "outside")
	rc := mk("Polygon", r.PickS("parse", "ctor"))
	rc.Shape.N, rc.Shape.Holes, rc.Shape.Jag = r.Pick(4, 8), 1, -1.5
	return rc
}

func (g *gen) stratified() Recipe {
	if g.r.Chance(0.15) {
		return g.edgeCase()
	}
	kind := g.r.PickS("Polygon", "Polygon", "LineString", "MultiPolygon", "MultiPoint", "MultiLineString", "FeatureCollection", "GeometryCollection", "Feature", "Feature", "Circle")
	return g.stratifiedOf(kind)
}

// nearFloat returns a value just below, at or just above a floating-point
// literal of the library source lying in [lo, hi].
func (g *gen) nearFloat(lo, hi float64) (float64, bool) {
	var cands []float64
	for _, c := range harvestedF {
		if c >= lo && c <= hi {
			cands = append(cands, c)
		}
	}
	for _, c := range harvested { // integer literals are often used as floats
		if float64(c) >= lo && float64(c) <= hi {
			cands = append(cands, float64(c))
		}
	}
	if len(cands) == 0 {
		return 0, false
	}
	return cands[g.r.Intn(len(cands))] * g.r.PickF(0.999, 1, 1, 1.001), true
}

// nearConstant returns a size just below, at or just above one of the integer
// constants harvested from the library source that lies in [lo, hi]; ok=false
// if there is none.
func (g *gen) nearConstant(lo, hi int) (int, bool) {
	var cands []int
	for _, c := range harvested {
		if c >= lo && c <= hi {
			cands = append(cands, c)
		}
	}
	if len(cands) == 0 {
		return 0, false
	}
	v := cands[g.r.Intn(len(cands))] + g.r.Pick(-1, 0, 0, 1, 1)
	if v < lo {
		v = lo
	}
	return v, true
}

func (g *gen) stratifiedOf(kind string) Recipe {
	r := g.r
	rc := Recipe{Kind: kind, Via: r.PickS("parse", "ctor"), Opts: g.parseOpts()}
	rc.Opts.RequireValid = false
	rc.Opts.IndexGeometryKind = r.Pick(0, 1, 2)
	rc.Opts.IndexGeometry = r.Pick(0, 1, 64)
	rc.Opts.IndexChildren = r.Pick(0, 1, 64)
	maxPts, maxKids, maxHoles := 1100, 4200, 300
	if g.tp.maxTasks >= 6 {
		maxPts, maxKids, maxHoles = 5200, 5200, 1100
	}
	sizeClass := func() int {
		if r.Chance(0.25) {
			if v, ok := g.nearConstant(8, maxPts); ok {
				return v
			}
		}
		switch r.Intn(8) {
		case 0, 1, 2:
			return r.Pick(4, 6, 12, 30)
		case 3, 4, 5:
			return r.Pick(63, 64, 65, 100)
		}
		if g.tp.maxTasks >= 6 {
			return r.Pick(300, 1030, 2000, 5000)
		}
		return r.Pick(200, 300, 1030)
	}
	childClass := func() int {
		if r.Chance(0.25) {
			if v, ok := g.nearConstant(2, maxKids); ok {
				return v
			}
		}
		switch r.Intn(10) {
		case 0, 1, 2:
			return r.Pick(1, 2, 5)
		case 3, 4, 5:
			return r.Pick(16, 40, 63)
		case 6, 7, 8:
			return r.Pick(64, 70, 130)
		}
		if g.tp.maxTasks >= 6 {
			return r.Pick(1024, 4100, 5000)
		}
		return r.Pick(300, 1100, 4100)
	}
	geomShape := func(small bool) Shape {
		sh := g.shape(small)
		if !small {
			sh.N = sizeClass()
			if r.Chance(0.1) {
				if v, ok := g.nearFloat(0.01, 60); ok {
					sh.R = v // an extent next to a float constant of the source
				}
			}
			if r.Chance(0.1) {
				if v, ok := g.nearFloat(1, 400); ok {
					sh.Cx, sh.Cy = v*r.PickF(1, -1), v*r.PickF(0.5, -0.5, 1)
				}
			}
		}
		sh.Holes = 0
		return sh
	}
	switch kind {
	case "Polygon":
		rc.Shape = geomShape(false)
		rc.Shape.Holes = r.Pick(0, 1, 2, 9, 64, 100)
		if r.Chance(0.3) {
			if v, ok := g.nearConstant(3, maxHoles); ok {
				rc.Shape.Holes = v
			}
		}
		if debugSolo && rc.Shape.Holes >= 200 {
			fmt.Fprintf(os.Stderr, "gen: stratified polygon with %d holes via %s n=%d\n", rc.Shape.Holes, rc.Via, rc.Shape.N)
		}
		rc.Via = r.PickS("parse", "ctor", "move", "literal")
		if rc.Via == "move" || rc.Via == "literal" {
			rc.Shape.Meters = r.Coord(-3, 3)
			rc.Shape.Steps = r.Range(-20, 20)
		}
	case "LineString":
		rc.Shape = geomShape(false)
		rc.Shape.Jag = 0.5
		rc.Via = r.PickS("parse", "ctor", "move")
		if rc.Via == "move" {
			rc.Shape.Meters = r.Coord(-3, 3)
			rc.Shape.Steps = r.Range(-20, 20)
		}
	case "Circle":
		rc = g.recipe("Circle", 0, false)
		rc.Shape.Steps = r.Pick(3, 8, 12, 64)
		if v, ok := g.nearFloat(1, 5e7); ok && r.Chance(0.3) {
			rc.Shape.Meters = v // a radius next to a float constant of the source
		}
		if v, ok := g.nearConstant(3, 400); ok && r.Chance(0.3) {
			rc.Shape.Steps = v
			rc.Via = "ctor"
		}
		if rc.Shape.Meters == 0 {
			rc.Shape.Meters = 50000
		}
	case "MultiPoint":
		rc.Shape = geomShape(true)
		rc.Shape.R = r.Coord(2, 15)
		rc.Shape.N = childClass()
	case "MultiPolygon", "MultiLineString":
		rc.Shape = geomShape(true)
		n := childClass()
		ck := "Polygon"
		if kind == "MultiLineString" {
			ck = "LineString"
		}
		for i := 0; i < n; i++ {
			ch := Recipe{Kind: ck, Via: "parse", Opts: rc.Opts, Shape: geomShape(n > 8 || r.Chance(0.5))}
			if n <= 8 && r.Chance(0.3) {
				ch.Shape.Holes = r.Pick(1, 2)
			}
			rc.Children = append(rc.Children, ch)
		}
	case "FeatureCollection", "GeometryCollection":
		rc.Shape = geomShape(true)
		n := childClass()
		for i := 0; i < n; i++ {
			ck := geomKinds[r.Intn(len(geomKinds))]
			if kind == "FeatureCollection" && r.Chance(0.7) {
				ck = "Feature"
			}
			ch := g.recipe(ck, 1, true)
			ch.Opts = rc.Opts
			rc.Children = append(rc.Children, ch)
		}
	case "Feature":
		inner := r.PickS("MultiPolygon", "MultiPoint", "MultiLineString", "GeometryCollection", "Polygon", "LineString")
		sub := g.stratifiedKind(inner, rc.Opts)
		rc.Shape = sub.Shape
		rc.Children = []Recipe{sub}
		rc.Members = featureMembers[r.Intn(len(featureMembers))]
		if r.Chance(0.5) {
			// the LENGTH of the members text is a size dimension too
			n := r.Pick(300, 5000, 70000)
			if v, ok := g.nearConstant(64, 1<<21); ok {
				n = v
			}
			rc.Members = padMembers(rc.Members, n, r.Chance(0.5))
		}
	}
	if rc.Via == "parse" {
		propagateOpts(&rc)
	}
	return rc
}

// stratifiedKind is stratifiedOf for the geometry wrapped by a stratified Feature.
func (g *gen) stratifiedKind(kind string, opts ParseOpts) Recipe {
	rc := g.stratifiedOf(kind)
	rc.Opts = opts
	if rc.Via == "move" || rc.Via == "literal" {
		rc.Via = "ctor"
	}
	propagateOpts(&rc)
	return rc
}

// manyChildren draws the size of a "big" collection: mostly just above the
// library's default index threshold (64), rarely far above it, so that sizes
// straddle other plausible thresholds (powers of two up to 4096).
func (g *gen) manyChildren() int {
	r := g.r
	k := r.Intn(1000)
	thorough := g.tp.maxTasks >= 6
	switch {
	case k < 15 || (thorough && k < 50):
		return r.Pick(4096, 4100, 5000)
	case k < 50 || (thorough && k < 130):
		return r.Pick(1024, 1100)
	case k < 150 || (thorough && k < 300):
		return r.Pick(130, 256, 300)
	}
	return g.tp.bigChildren[r.Intn(len(g.tp.bigChildren))]
}

func (g *gen) ringN() int {
	if g.r.Chance(g.tp.largeP) {
		return g.tp.ringLarge[g.r.Intn(len(g.tp.ringLarge))]
	}
	return g.tp.ringSmall[g.r.Intn(len(g.tp.ringSmall))]
}

func (g *gen) shape(small bool) Shape {
	r := g.r
	sh := Shape{
		Cx:   r.Coord(-20, 20),
		Cy:   r.Coord(-20, 20),
		R:    r.Coord(1, 15),
		Seed: r.U64() >> 16,
	}
	if small {
		sh.R = r.Coord(0.25, 3)
		sh.N = r.Pick(3, 4, 5, 8)
	} else {
		sh.N = g.ringN()
	}
	if r.Chance(0.6) {
		sh.Jag = r.PickF(0.1, 0.3, 0.5, 0.6)
	}
	if r.Chance(0.25) {
		sh.Holes = r.Pick(1, 1, 2)
		if !small && r.Chance(0.12) {
			sh.Holes = r.Pick(9, 64, 70, 100) // many holes (rare)
		}
	}
	if r.Chance(0.2) {
		sh.Lattice = true
		if sh.R < 2 {
			sh.R = 2
		}
	}
	if r.Chance(0.04) {
		// special coordinate values: the origin, the antimeridian, the poles
		sh.Cx = r.PickF(0, 180, -180, 0, 90)
		sh.Cy = r.PickF(0, 90, -90, 0, 45)
	}
	return sh
}

func (g *gen) recipe(kind string, depth int, small bool) Recipe {
	r := g.r
	rc := Recipe{Kind: kind, Via: "parse", Opts: g.base}
	if r.Chance(0.4) {
		rc.Via = "ctor"
	}
	if r.Chance(0.3) {
		rc.Opts = g.parseOpts()
	}
	rc.Shape = g.shape(small)
	if r.Chance(0.2) {
		rc.Dims = r.Pick(3, 4)
	}
	switch kind {
	case "Point", "SimplePoint":
		if kind == "SimplePoint" {
			rc.Opts.AllowSimplePoints = true
			rc.Dims = 0
		} else if r.Chance(0.15) {
			rc.Members = geomMembers[r.Intn(len(geomMembers))]
		}
		if kind == "Point" && r.Chance(0.04) {
			rc.Shape.Units = "null-x" // JSON null coordinate: parsed as NaN
			rc.Via = "parse"
		}
	case "LineString":
		if r.Chance(0.1) {
			rc.Members = geomMembers[r.Intn(len(geomMembers))]
		}
		if rc.Shape.Jag == 0 && r.Chance(0.7) {
			rc.Shape.Jag = 0.5
		}
		if rc.Via == "ctor" && depth == 0 && r.Chance(0.2) {
			rc.Via = "move"
			rc.Shape.Meters = r.Coord(-3, 3)
			rc.Shape.Steps = r.Range(-20, 20)
		}
	case "Polygon":
		if r.Chance(0.1) {
			rc.Members = geomMembers[r.Intn(len(geomMembers))]
		}
		if rc.Via == "ctor" && r.Chance(0.03) {
			rc.Shape.N = 0 // NewPolygon(nil)
		}
		if rc.Via == "ctor" && depth == 0 && r.Chance(0.25) {
			// built from parts of other geometry objects (public API)
			rc.Via = r.PickS("move", "literal")
			rc.Shape.Meters = r.Coord(-3, 3)
			rc.Shape.Steps = r.Range(-20, 20)
		}
	case "Rect":
		rc.Opts.AllowRects = true
		rc.Dims = 0
		rc.Shape.Jag = r.PickF(0, 0.25, 0.5)
	case "Circle":
		rc.Opts.DisableCircleType = false
		rc.Shape.Meters = r.PickF(0, 1000, 50000, 250000, 800000, 1500000)
		if rc.Shape.Meters > 0 {
			rc.Shape.Meters = q64(rc.Shape.Meters * (0.5 + r.Float()))
		}
		rc.Shape.Steps = r.Pick(0, 3, 8, 12, 64)
		rc.Shape.Units = r.PickS("", "m", "km")
	case "MultiPoint":
		rc.Shape.N = r.Pick(1, 2, 3, 5, 9, 20)
		if !small && r.Chance(0.2) {
			rc.Shape.N = g.manyChildren()
		}
	case "MultiLineString", "MultiPolygon":
		n := r.Pick(1, 2, 3, 5)
		smallKids := false
		if !small && r.Chance(0.15) {
			n = g.manyChildren()
			smallKids = true
		}
		ck := "LineString"
		if kind == "MultiPolygon" {
			ck = "Polygon"
		}
		for i := 0; i < n; i++ {
			ch := Recipe{Kind: ck, Via: "parse", Opts: rc.Opts, Shape: g.shape(small || smallKids || r.Chance(0.5))}
			rc.Children = append(rc.Children, ch)
		}
	case "GeometryCollection", "FeatureCollection":
		n := r.Pick(0, 1, 2, 3, 5, 8)
		smallKids := small
		if !small && depth == 0 && r.Chance(0.15) {
			n = g.manyChildren()
			smallKids = true
		}
		for i := 0; i < n; i++ {
			var ck string
			if kind == "FeatureCollection" && r.Chance(0.8) {
				ck = "Feature"
			} else if depth < 1 && !smallKids {
				ck = allKinds[r.Intn(len(allKinds))]
			} else {
				ck = geomKinds[r.Intn(len(geomKinds))]
			}
			ch := g.recipe(ck, depth+1, smallKids || r.Chance(0.5))
			ch.Opts = rc.Opts // Parse applies one option set to the whole document
			rc.Children = append(rc.Children, ch)
		}
		if r.Chance(0.15) {
			rc.Members = geomMembers[r.Intn(len(geomMembers))]
		}
	case "Feature":
		var ck string
		if depth < 2 && r.Chance(0.2) {
			ck = "GeometryCollection"
		} else {
			ck = geomKinds[r.Intn(len(geomKinds))]
			if ck == "Circle" || ck == "Rect" || ck == "SimplePoint" {
				ck = "Polygon"
			}
		}
		ch := g.recipe(ck, depth+1, small)
		ch.Opts = rc.Opts
		rc.Children = []Recipe{ch}
		rc.Members = featureMembers[r.Intn(len(featureMembers))]
		if depth == 0 && r.Chance(0.2) {
			n := r.Pick(5000, 70000)
			if v, ok := g.nearConstant(1000, 1<<21); ok && r.Chance(0.7) {
				n = v
			}
			rc.Members = padMembers(rc.Members, n, r.Chance(0.5))
		}
	}
	if rc.Via == "parse" {
		propagateOpts(&rc)
	}
	return rc
}

// recipeWeight estimates the number of points of the object a recipe builds.
func recipeWeight(rc *Recipe) int {
	if rc.Via == "share" {
		return 64
	}
	w := 0
	switch rc.Kind {
	case "Point", "SimplePoint", "Rect":
		w = 2
	case "Circle":
		w = 66
	case "MultiPoint", "LineString", "Polygon":
		w = rc.Shape.N + 8*rc.Shape.Holes
	}
	for i := range rc.Children {
		w += recipeWeight(&rc.Children[i])
	}
	if w < 1 {
		w = 1
	}
	return w
}

func shiftRecipe(rc *Recipe, dx, dy float64) {
	rc.Shape.Cx += dx
	rc.Shape.Cy += dy
	for i := range rc.Children {
		shiftRecipe(&rc.Children[i], dx, dy)
	}
}

// padMembers lengthens a members text to about n bytes with one long foreign
// member, placed before or after the existing members.
func padMembers(members string, n int, before bool) string {
	pad := n - len(members) - 12
	if pad < 1 {
		pad = 1
	}
	long := `"pad":"` + strings.Repeat("x", pad) + `"`
	switch {
	case members == "":
		return long
	case before:
		return long + "," + members
	}
	return members + "," + long
}

func cloneRecipe(rc *Recipe) *Recipe {
	b, _ := json.Marshal(rc)
	var c Recipe
	_ = json.Unmarshal(b, &c)
	return &c
}

func propagateOpts(rc *Recipe) {
	for i := range rc.Children {
		rc.Children[i].Opts = rc.Opts
		propagateOpts(&rc.Children[i])
	}
}

var (
	mObjArg   = []string{"Contains", "Within", "Intersects", "Distance"}
	mSpatialV = []string{"WithinRect", "WithinPoint", "IntersectsRect", "IntersectsPoint", "DistanceRect", "DistancePoint"}
	mSpatialG = []string{"WithinLine", "WithinPoly", "IntersectsLine", "IntersectsPoly", "DistanceLine", "DistancePoly"}
	mSerial   = []string{"JSON", "String", "AppendJSON", "MarshalJSON", "Members", "AppendJSON"}
	mSimple   = []string{"Empty", "Valid", "Rect", "Center", "NumPoints", "Spatial", "IsPoint", "TypeSpecific", "Children", "Indexed", "TypeSpecific"}
	mCallback = []string{"ForEach", "Search", "S.Search", "Search", "S.Search"}
	mSeries   = []string{"S.Rect", "S.Empty", "S.Convex", "S.Clockwise", "S.NumPoints", "S.NumSegments", "S.Valid", "S.PointAt", "S.SegmentAt", "S.Index"}
	mGeom     = []string{"ContainsPoint", "IntersectsPoint", "ContainsRect", "IntersectsRect", "ContainsLine", "IntersectsLine", "ContainsPoly", "IntersectsPoly", "Rect", "Empty", "Valid", "Clockwise", "Move"}
)

// usesArg reports whether the method reads the argument object.
func usesArg(m string) bool {
	switch m {
	case "Contains", "Within", "Intersects", "Distance",
		"WithinLine", "WithinPoly", "IntersectsLine", "IntersectsPoly", "DistanceLine", "DistancePoly",
		"L.ContainsLine", "L.IntersectsLine", "L.ContainsPoly", "L.IntersectsPoly",
		"P.ContainsLine", "P.IntersectsLine", "P.ContainsPoly", "P.IntersectsPoly":
		return true
	}
	return false
}

func usesCallback(m string) bool {
	return m == "ForEach" || m == "Search" || m == "S.Search"
}

type faultSet struct {
	cancel, cbpanic, goexit, reenter, gc bool
}

func (g *gen) pickObj(hot []int, n int) int {
	if len(hot) > 0 && g.r.Chance(0.7) {
		return hot[g.r.Intn(len(hot))]
	}
	return g.r.Intn(n)
}

func (g *gen) path() []int {
	r := g.r
	if r.Chance(0.7) {
		return nil
	}
	n := r.Pick(1, 1, 2)
	p := make([]int, n)
	for i := range p {
		p[i] = r.Intn(100)
	}
	return p
}

// vertexOf returns some vertex of some pool shape (on-edge / on-vertex probes).
func (g *gen) probePoint(pool []Recipe) [2]float64 {
	r := g.r
	if len(pool) > 0 && r.Chance(0.35) {
		rc := &pool[r.Intn(len(pool))]
		for len(rc.Children) > 0 && r.Chance(0.7) {
			rc = &rc.Children[r.Intn(len(rc.Children))]
		}
		switch rc.Kind {
		case "Polygon", "MultiPolygon":
			pts := ringPts(rc.Shape)
			p := pts[r.Intn(len(pts))]
			return [2]float64{p.X, p.Y}
		case "LineString", "MultiLineString":
			pts := linePts(rc.Shape)
			p := pts[r.Intn(len(pts))]
			return [2]float64{p.X, p.Y}
		default:
			return [2]float64{q64(rc.Shape.Cx), q64(rc.Shape.Cy)}
		}
	}
	return [2]float64{r.Coord(-25, 25), r.Coord(-25, 25)}
}

func (g *gen) probeRect(pool []Recipe) [4]float64 {
	r := g.r
	c := g.probePoint(pool)
	w := r.PickF(0, 0.5, 2, 8, 30)
	h := r.PickF(0, 0.5, 2, 8, 30)
	return [4]float64{q64(c[0] - w), q64(c[1] - h), q64(c[0] + w), q64(c[1] + h)}
}

func (g *gen) op(pool []Recipe, hot []int, fs faultSet, nested bool) Op {
	r := g.r
	n := len(pool)
	op := Op{R: g.pickObj(hot, n), A: g.pickObj(hot, n), Path: g.path(), APath: g.path()}
	op.Pt = g.probePoint(pool)
	op.Rect = g.probeRect(pool)
	op.I = r.Intn(5000)
	op.Ring = r.Intn(3)
	w := r.Intn(100)
	switch {
	case w < 28:
		op.M = mObjArg[r.Intn(len(mObjArg))]
	case w < 40:
		op.M = mSpatialV[r.Intn(len(mSpatialV))]
	case w < 48:
		op.M = mSpatialG[r.Intn(len(mSpatialG))]
	case w < 58:
		op.M = mSerial[r.Intn(len(mSerial))]
		if op.M == "AppendJSON" {
			op.Prefix = r.PickS("", "", "x", `{"k":`, "0123456789abcdef")
			op.Cap = r.Pick(0, 0, 1, 16, 64, 4096)
			switch k := r.Intn(100); {
			case k < 35:
				op.Reuse = true
				op.Prefix, op.Cap = "", 0
			case k < 50:
				op.Scribble = true
			}
		}
		// (MarshalJSON results are NOT scribbled on: a library may legitimately
		// hand out a cached, read-only []byte there; AppendJSON's result is the
		// caller's own extended dst by the append contract.)
	case w < 66:
		op.M = mSimple[r.Intn(len(mSimple))]
	case w < 82 && !nested:
		op.M = mCallback[r.Intn(len(mCallback))]
	case w < 82:
		op.M = "ForEach"
	case w < 90:
		op.M = mSeries[r.Intn(len(mSeries))]
	default:
		pre := "P."
		if r.Chance(0.35) {
			pre = "L."
		}
		op.M = pre + mGeom[r.Intn(len(mGeom))]
		if op.M[2:] == "Move" {
			op.Pt = [2]float64{r.Coord(-3, 3), r.Coord(-3, 3)}
		}
	}
	if selfHangFamily(op.M) && op.A == op.R && n > 1 && !r.Chance(0.05) {
		// see selfHangFamily: mostly avoid testing an object against itself here
		op.A = (op.R + 1 + r.Intn(n-1)) % n
	}
	if usesCallback(op.M) {
		if op.M != "ForEach" {
			// search windows: often large so that many callbacks happen
			if r.Chance(0.5) {
				op.Rect = [4]float64{-180, -90, 180, 90}
			}
		}
		cb := &CB{}
		switch k := r.Intn(100); {
		case k < 45:
			// plain visiting
		case k < 65 && fs.cancel:
			cb.CancelAt = r.Range(1, 4)
		case k < 78 && fs.cbpanic:
			cb.PanicAt = r.Pick(1, 2, 3, 5, 9)
		case k < 84 && fs.goexit && !nested:
			cb.GoexitAt = r.Pick(1, 2, 3, 5, 9)
		case fs.reenter && !nested:
			cb.ReenterAt = r.Range(1, 2)
			sub := g.op(pool, hot, fs, true)
			cb.Reenter = &sub
			if fs.cancel && r.Chance(0.3) {
				cb.CancelAt = cb.ReenterAt + r.Intn(2)
			}
		}
		op.CB = cb
	}
	return op
}

// genSpec draws a complete run (without its schedule, see finalizeSchedule).
func genSpec(seed uint64, worker, run int, tier string) (*Spec, *Rng, faultSet) {
	r := NewRng(deriveSeed(seed, worker, run))
	g := &gen{r: r, tp: paramsFor(tier)}
	s := &Spec{Version: 1, Seed: seed, Worker: worker, Run: run, Tier: tier}
	g.base = g.parseOpts()
	if r.Chance(0.3) {
		s.Knobs = Knobs{Set: true, IdxKind: r.Pick(0, 1, 2), IdxMin: r.Pick(0, 1, 4, 64), DefParse: g.parseOpts()}
		s.Knobs.DefParse.RequireValid = false
	}
	n := r.Range(g.tp.poolMin, g.tp.poolMax)
	s.Pool = append(s.Pool, g.recipe("Polygon", 0, false))
	s.Pool = append(s.Pool, g.recipe("LineString", 0, false))
	for len(s.Pool) < n {
		s.Pool = append(s.Pool, g.recipe(allKinds[r.Intn(len(allKinds))], 0, false))
	}
	// shuffle so that the hot objects are of every kind over time
	for i := len(s.Pool) - 1; i > 0; i-- {
		j := r.Intn(i + 1)
		s.Pool[i], s.Pool[j] = s.Pool[j], s.Pool[i]
	}
	if r.Chance(0.3) {
		// a SIBLING: same geometry as an existing object, one configuration
		// dimension changed (state keyed by value that forgets a dimension
		// confuses the two)
		src := s.Pool[r.Intn(len(s.Pool))]
		sib := *cloneRecipe(&src)
		variant := r.Intn(5)
		if src.Kind == "Circle" && r.Chance(0.6) {
			variant = 2 // the step count is the circle's own configuration dimension
		}
		switch variant {
		case 0:
			if sib.Via == "parse" {
				sib.Via = "ctor"
			} else {
				sib.Via = "parse"
			}
		case 1:
			sib.Opts.IndexGeometryKind = (sib.Opts.IndexGeometryKind + 1 + r.Intn(2)) % 3
			sib.Opts.IndexGeometry = r.Pick(0, 1, 4, 64)
			propagateOpts(&sib)
		case 2:
			sib.Shape.Steps = r.Pick(3, 4, 8, 12, 32)
			sib.Via = "ctor"
		case 3:
			sib.Dims = r.Pick(0, 3, 4)
			sib.Members = r.PickS("", geomMembers[0], geomMembers[1])
		default:
			sib.Opts.IndexChildren = r.Pick(0, 1, 3, 64)
			sib.Opts.AllowRects = !sib.Opts.AllowRects
			sib.Opts.AllowSimplePoints = !sib.Opts.AllowSimplePoints
			propagateOpts(&sib)
		}
		if sib.Via != "share" {
			s.Pool = append(s.Pool, sib)
			n = len(s.Pool)
			s.Siblings = true
		}
	}
	if r.Chance(0.05) {
		// geometry.WorldPolygon: an exported, process-wide object
		s.Pool = append(s.Pool, Recipe{Via: "world", Kind: "Polygon", Shape: Shape{Cx: 0, Cy: 0, R: 90, N: 4}})
		n = len(s.Pool)
	}
	if r.Chance(0.15) {
		// one more object that WRAPS earlier pool objects without copying them
		sh := Recipe{Via: "share", Kind: r.PickS("FeatureCollection", "GeometryCollection", "Feature", "Rewrap")}
		for k := r.Range(1, 3); k > 0; k-- {
			sh.Refs = append(sh.Refs, r.Intn(len(s.Pool)))
		}
		if sh.Kind == "Feature" {
			sh.Members = featureMembers[r.Intn(len(featureMembers))]
		}
		s.Pool = append(s.Pool, sh)
		n = len(s.Pool)
	}
	hot := []int{r.Intn(n)}
	if r.Chance(0.5) {
		hot = append(hot, r.Intn(n))
	}
	stratifiedHot := false
	if r.Chance(0.3) {
		stratifiedHot = true
		// STRATIFIED hot object: the natural distribution makes conjunctions of
		// rare structural features (many holes AND built from parts AND large)
		// vanishingly rare; here every class of every dimension is equally likely.
		s.Pool = append(s.Pool, g.stratified())
		n = len(s.Pool)
		hot[0] = n - 1
		if r.Chance(0.35) {
			sib := *cloneRecipe(&s.Pool[n-1])
			if sib.Kind == "Circle" {
				sib.Via = "ctor"
				sib.Shape.Steps = r.Pick(3, 4, 8, 12, 32)
			} else if r.Chance(0.6) {
				shiftRecipe(&sib, float64(r.Range(-2, 2)), float64(r.Range(-2, 2)))
			}
			s.Pool = append(s.Pool, sib)
			n = len(s.Pool)
			s.Siblings = true
			hot = append(hot[:1], n-1)
		}
	}
	fs := faultSet{cancel: r.Chance(0.5), cbpanic: r.Chance(0.5), goexit: r.Chance(0.5), reenter: r.Chance(0.5), gc: r.Chance(0.5)}
	nt := 2
	switch k := r.Intn(100); {
	case k < 45:
		nt = 2
	case k < 75:
		nt = 3
	case k < 90:
		nt = 4
	default:
		nt = r.Range(2, g.tp.maxTasks)
	}
	for t := 0; t < nt; t++ {
		nops := r.Range(1, g.tp.maxOps)
		if r.Chance(0.4) {
			nops = r.Range(1, 3)
		}
		ops := make([]Op, nops)
		for i := range ops {
			ops[i] = g.op(s.Pool, hot, fs, false)
		}
		s.Tasks = append(s.Tasks, ops)
	}
	kshape := r.Intn(100)
	if stratifiedHot && r.Chance(0.5) {
		// a rare structure deserves a workload that really exercises it: every
		// method (sweep) or many arguments inside its bounding box (argstorm)
		kshape = r.Pick(0, 0, 16, 16, 16, 9, 13)
	}
	if forceShape >= 0 {
		kshape = forceShape
	}
	switch k := kshape; {
	case k < 6:
		g.sweep(s, hot, fs)
	case k >= 8 && k < 12:
		g.crowd(s, hot, fs)
	case k >= 12 && k < 14:
		g.marathon(s, hot, fs, tier)
	case k >= 15 && k < 20:
		g.argstormOn(s, fs, hot[0], stratifiedHot)
	case k >= 21 && k < 25:
		g.duel(s)
	}
	if len(s.Tasks) > verifsim.MaxTasks {
		s.Tasks = s.Tasks[:verifsim.MaxTasks]
	}
	s.Order = r.Perm(len(s.Tasks))
	return s, r, fs
}

// crowd: many callers at once on the same object (state that is correct for up
// to N simultaneous callers only).
func (g *gen) crowd(s *Spec, hot []int, fs faultSet) {
	r := g.r
	nt := r.Range(7, 16)
	if v, ok := g.nearConstant(2, verifsim.MaxTasks-2); ok && r.Chance(0.4) {
		nt = v + 1 // one more caller than some small constant of the library
	}
	if nt > verifsim.MaxTasks {
		nt = verifsim.MaxTasks
	}
	h := hot[0]
	fam := [][]string{mObjArg, mSpatialV, mSpatialG, mSerial, mCallback, nil}[r.Intn(6)]
	s.Tasks = nil
	for t := 0; t < nt; t++ {
		n := r.Range(1, 3)
		ops := make([]Op, n)
		for i := range ops {
			ops[i] = g.op(s.Pool, hot, fs, false)
			if r.Chance(0.85) {
				ops[i].R = h
			}
			if fam != nil && r.Chance(0.8) {
				ops[i].M = fam[r.Intn(len(fam))]
				ops[i].Scribble = false
				ops[i].Reuse = ops[i].M == "AppendJSON" && r.Chance(0.4)
				ops[i].CB = nil
				if usesCallback(ops[i].M) {
					ops[i].CB = &CB{}
					if ops[i].M != "ForEach" {
						ops[i].Rect = [4]float64{-180, -90, 180, 90}
					}
				}
				ops[i].Prefix, ops[i].Cap = "", 0
			}
			if selfHangFamily(ops[i].M) && ops[i].A == ops[i].R && len(s.Pool) > 1 {
				ops[i].A = (ops[i].R + 1 + r.Intn(len(s.Pool)-1)) % len(s.Pool)
			}
		}
		s.Tasks = append(s.Tasks, ops)
	}
	s.Strategy = "crowd"
}

// marathon: few callers, very many calls on the same object (behaviour that
// only changes after an object has been queried hundreds or thousands of times).
func (g *gen) marathon(s *Spec, hot []int, fs faultSet, tier string) {
	r := g.r
	nt := r.Pick(2, 2, 3)
	h := hot[0]
	lo, hi := 300, 1500
	units := 600_000 // calls x points budget of one marathon caller
	if tier == "thorough" {
		lo, hi = 800, 6000
		units = 6_000_000
	}
	if v, ok := g.nearConstant(100, hi*2); ok && r.Chance(0.4) {
		lo, hi = v/nt+1, v/nt+v/8+2 // the callers together just pass the constant
	}
	// a call on a big object costs in proportion to its size: fewer calls then
	if w := recipeWeight(&s.Pool[h]); w > 0 && units/w < hi {
		hi = units / w
		if hi < 60 {
			hi = 60
		}
		if lo > hi {
			lo = hi
		}
	}
	// a small repertoire repeated many times, so that per-object and per-method
	// counters really reach high values
	rep := make([]Op, r.Range(2, 6))
	for i := range rep {
		rep[i] = g.op(s.Pool, hot, fs, false)
		rep[i].R = h
		if selfHangFamily(rep[i].M) && rep[i].A == h && len(s.Pool) > 1 {
			rep[i].A = (h + 1 + r.Intn(len(s.Pool)-1)) % len(s.Pool)
		}
		if rep[i].CB != nil {
			rep[i].CB = &CB{CancelAt: rep[i].CB.CancelAt}
		}
	}
	s.Tasks = nil
	for t := 0; t < nt; t++ {
		n := r.Range(lo, hi)
		ops := make([]Op, n)
		for i := range ops {
			ops[i] = rep[r.Intn(len(rep))]
			if r.Chance(0.3) {
				ops[i].Pt = g.probePoint(s.Pool)
				ops[i].Rect = g.probeRect(s.Pool)
			}
		}
		s.Tasks = append(s.Tasks, ops)
	}
	s.Strategy = "marathon"
}

var mArgValue = []string{"IntersectsPoint", "WithinPoint", "IntersectsRect", "WithinRect", "DistancePoint", "P.ContainsPoint", "P.IntersectsPoint", "P.ContainsRect", "P.IntersectsRect", "L.ContainsPoint", "L.IntersectsRect", "S.Search", "Search", "Contains", "Intersects", "Within"}

// argstorm: several callers put many DIFFERENT arguments to one or two methods
// of the same object, all drawn inside that object's bounding box (state that
// is populated lazily per argument: memo tables, grids, per-cell caches).
func (g *gen) argstormOn(s *Spec, fs faultSet, target int, useTarget bool) {
	r := g.r
	// prefer a large geometry as the target
	h := r.Intn(len(s.Pool))
	if useTarget {
		h = target
	}
	for k := 0; k < 6 && !useTarget; k++ {
		c := r.Intn(len(s.Pool))
		if s.Pool[c].Shape.N >= 64 && (s.Pool[c].Kind == "Polygon" || s.Pool[c].Kind == "LineString" || s.Pool[c].Kind == "Feature" || s.Pool[c].Kind == "MultiPolygon") {
			h = c
			break
		}
	}
	sh := s.Pool[h].Shape
	if len(s.Pool[h].Children) > 0 && (s.Pool[h].Kind == "Feature" || r.Chance(0.5)) {
		sh = s.Pool[h].Children[r.Intn(len(s.Pool[h].Children))].Shape
	}
	if sh.R <= 0 {
		sh.R = 1
	}
	// small point objects usable as arguments of Contains/Intersects/Within
	var ptObjs []int
	for i := range s.Pool {
		if s.Pool[i].Kind == "Point" || s.Pool[i].Kind == "SimplePoint" || s.Pool[i].Kind == "MultiPoint" || s.Pool[i].Kind == "Rect" {
			ptObjs = append(ptObjs, i)
		}
	}
	nm := r.Pick(1, 1, 2, 3)
	ms := make([]string, nm)
	for i := range ms {
		ms[i] = mArgValue[r.Intn(len(mArgValue))]
	}
	nt := r.Pick(2, 2, 3, 4)
	s.Tasks = nil
	for t := 0; t < nt; t++ {
		n := r.Range(10, 50)
		ops := make([]Op, n)
		for i := range ops {
			op := Op{M: ms[r.Intn(len(ms))], R: h, A: h}
			if len(ptObjs) > 0 {
				op.A = ptObjs[r.Intn(len(ptObjs))]
			}
			x := sh.Cx + sh.R*(2*r.Float()-1)
			y := sh.Cy + sh.R*(2*r.Float()-1)
			op.Pt = [2]float64{q64(x), q64(y)}
			w, hh := sh.R*r.PickF(0, 0.02, 0.1, 0.3), sh.R*r.PickF(0, 0.02, 0.1, 0.3)
			op.Rect = [4]float64{q64(x - w), q64(y - hh), q64(x + w), q64(y + hh)}
			op.Ring = r.Intn(3)
			if usesCallback(op.M) {
				op.CB = &CB{}
				switch {
				case fs.cancel && r.Chance(0.2):
					op.CB.CancelAt = r.Range(1, 3)
				case fs.cbpanic && r.Chance(0.2):
					op.CB.PanicAt = r.Range(1, 6)
				case fs.goexit && r.Chance(0.05):
					op.CB.GoexitAt = r.Range(1, 6)
				}
			}
			ops[i] = op
		}
		s.Tasks = append(s.Tasks, ops)
	}
	// VOCABULARY mode (half of the storms): all callers draw their arguments
	// from the same two to four argument tuples, so that the SAME argument
	// meets the same receiver again and again from different callers, next to
	// a different argument with (usually) a different answer - what a memo
	// keyed by the argument (last point tested, last window searched) needs
	// before a torn or mixed-up entry becomes a wrong answer. The first tuple
	// lies near the centre of the target, the second outside of it, further
	// ones anywhere in its box. The choices come from a forked generator:
	// every other draw of the run is what it was without this mode.
	s.Strategy = "argstorm"
	vr := NewRng(splitmix(deriveSeed(s.Seed, s.Worker, s.Run) ^ 0x766f636162756c61))
	if vr.Chance(0.5) {
		type argTuple struct {
			pt   [2]float64
			rect [4]float64
			a    int
		}
		if big := s.Pool[h].Shape.N >= 64 && len(s.Pool[h].Children) == 0; !big && !useTarget && vr.Chance(0.7) {
			// no large geometry here: the target becomes a large copy of the
			// pool's first polygon or line (indexes, and whatever else is only
			// worth its cost on large geometries, exist from a size upwards)
			for i := range s.Pool {
				if k := s.Pool[i].Kind; (k == "Polygon" || k == "LineString") && s.Pool[i].Via != "share" && s.Pool[i].Via != "world" {
					c := *cloneRecipe(&s.Pool[i])
					c.Shape.N = g.tp.ringLarge[vr.Intn(len(g.tp.ringLarge))]
					s.Pool = append(s.Pool, c)
					h = len(s.Pool) - 1
					sh = c.Shape
					if sh.R <= 0 {
						sh.R = 1
					}
					for t := range s.Tasks {
						for j := range s.Tasks[t] {
							s.Tasks[t][j].R = h
							if s.Tasks[t][j].A == i && len(ptObjs) == 0 {
								s.Tasks[t][j].A = h
							}
						}
					}
					break
				}
			}
		}
		var vocab []argTuple
		nv := vr.Pick(2, 2, 3, 4)
		for k := 0; k < nv; k++ {
			src := s.Tasks[vr.Intn(len(s.Tasks))]
			o := src[vr.Intn(len(src))]
			if k < 2 {
				th := 2 * math.Pi * vr.Float()
				d := sh.R * 0.25 * vr.Float()
				if k == 1 {
					d = sh.R * (1.15 + 0.5*vr.Float())
				}
				x, y := q64(sh.Cx+d*math.Cos(th)), q64(sh.Cy+d*math.Sin(th))
				w, hh := (o.Rect[2]-o.Rect[0])/2, (o.Rect[3]-o.Rect[1])/2
				o.Pt = [2]float64{x, y}
				o.Rect = [4]float64{q64(x - w), q64(y - hh), q64(x + w), q64(y + hh)}
			}
			vocab = append(vocab, argTuple{o.Pt, o.Rect, o.A})
		}
		for t := range s.Tasks {
			for i := range s.Tasks[t] {
				v := vocab[vr.Intn(len(vocab))]
				s.Tasks[t][i].Pt, s.Tasks[t][i].Rect, s.Tasks[t][i].A = v.pt, v.rect, v.a
			}
		}
		s.Strategy = "vocab"
	}
}

// duel: two objects (of the same kind when possible) are used as receiver and
// argument of two-object predicates in BOTH directions by different callers
// (state touched on both operands: per-object locks taken in operand order,
// statistics, pairwise memo tables).
func (g *gen) duel(s *Spec) {
	r := g.r
	n := len(s.Pool)
	h1 := r.Intn(n)
	if r.Chance(0.6) {
		// prefer composite objects (wrappers and collections)
		for k := 0; k < 8; k++ {
			c := r.Intn(n)
			switch s.Pool[c].Kind {
			case "Feature", "FeatureCollection", "GeometryCollection", "MultiPolygon", "MultiLineString", "MultiPoint":
				h1 = c
				k = 8
			}
		}
	}
	h2 := (h1 + 1 + r.Intn(n-1)) % n
	if s.Pool[h1].Via != "share" && r.Chance(0.7) {
		// the opponent is a sibling of h1: same structure, built separately,
		// shifted a little so that the two overlap without being equal
		sib := *cloneRecipe(&s.Pool[h1])
		if r.Chance(0.5) {
			// whole units: lattice shapes then share exact vertices and edges
			shiftRecipe(&sib, float64(r.Pick(-2, -1, 1, 2)), float64(r.Range(-2, 2)))
		} else {
			shiftRecipe(&sib, r.Coord(0.25, 2)*r.PickF(1, -1), r.Coord(-2, 2))
		}
		s.Pool = append(s.Pool, sib)
		s.Siblings = true
		h2 = len(s.Pool) - 1
	} else {
		for k := 0; k < 8; k++ {
			c := r.Intn(n)
			if c != h1 && s.Pool[c].Kind == s.Pool[h1].Kind && s.Pool[c].Via == s.Pool[h1].Via {
				h2 = c
				break
			}
		}
	}
	nt := r.Pick(2, 2, 3, 4)
	s.Tasks = nil
	for t := 0; t < nt; t++ {
		m := r.Range(3, 25)
		ops := make([]Op, m)
		for i := range ops {
			op := Op{M: mObjArg[r.Intn(len(mObjArg))], R: h1, A: h2}
			if (t+i)%2 == 1 || r.Chance(0.2) {
				op.R, op.A = h2, h1
			}
			if r.Chance(0.15) {
				op.Path = []int{r.Intn(50)}
			}
			ops[i] = op
		}
		s.Tasks = append(s.Tasks, ops)
	}
	s.Strategy = "duel"
}

// selfHangFamily: containment tests that, on the pinned tree, never return when
// a LineString with coinciding points is tested against ITSELF
// (Line.ContainsLine, DESIGN.md 7.3). The systematic workload shapes avoid
// receiver == argument for them - a run whose reference pass has to unwind a
// call is dropped (see soloUnwound), and sweeps over LineStrings would
// otherwise almost always be. Plain runs keep drawing such calls.
func selfHangFamily(m string) bool {
	switch m {
	case "Contains", "Within", "WithinLine", "L.ContainsLine", "P.ContainsLine", "L.ContainsPoly":
		return true
	}
	return false
}

// allMethods is every operation the driver knows, for sweep workloads.
func allMethods() []string {
	var ms []string
	ms = append(ms, mObjArg...)
	ms = append(ms, mSpatialV...)
	ms = append(ms, mSpatialG...)
	ms = append(ms, "JSON", "String", "AppendJSON", "MarshalJSON", "Members")
	ms = append(ms, "Empty", "Valid", "Rect", "Center", "NumPoints", "Spatial", "IsPoint", "TypeSpecific", "Children", "Indexed")
	ms = append(ms, "ForEach", "Search", "S.Search")
	ms = append(ms, mSeries...)
	for _, m := range mGeom {
		ms = append(ms, "P."+m, "L."+m)
	}
	return ms
}

// sweep replaces the drawn workload by a systematic one: two or three tasks
// each execute EVERY method once, in shuffled order, on the same hot object
// (optionally on the same derived/child object). One such run exposes, to the
// race oracle, every pair of methods on that object.
func (g *gen) sweep(s *Spec, hot []int, fs faultSet) {
	r := g.r
	h := hot[0]
	var path []int
	if r.Chance(0.4) {
		path = []int{r.Intn(100)}
		if r.Chance(0.3) {
			path = append(path, r.Intn(100))
		}
	}
	nt := r.Pick(2, 2, 3)
	ms := allMethods()
	s.Tasks = nil
	for t := 0; t < nt; t++ {
		perm := r.Perm(len(ms))
		ops := make([]Op, 0, len(ms))
		for _, k := range perm {
			op := g.op(s.Pool, hot, fs, false)
			op.M = ms[k]
			op.R = h
			op.Path = append([]int(nil), path...)
			if selfHangFamily(op.M) && op.A == op.R && len(s.Pool) > 1 {
				op.A = (op.R + 1 + r.Intn(len(s.Pool)-1)) % len(s.Pool)
			}
			op.Prefix, op.Cap = "", 0
			op.Scribble = false
			op.Reuse = op.M == "AppendJSON" && r.Chance(0.4)
			if usesCallback(op.M) {
				op.CB = &CB{} // never Goexit here: an abandoned task would cut the sweep short
				switch {
				case fs.cancel && r.Chance(0.2):
					op.CB.CancelAt = r.Range(1, 4)
				case fs.cbpanic && r.Chance(0.25):
					// a panicking callback only ends this one call (the caller recovers)
					op.CB.PanicAt = r.Range(1, 6)
				}
				if op.M != "ForEach" && r.Chance(0.7) {
					op.Rect = [4]float64{-180, -90, 180, 90}
				}
			} else {
				op.CB = nil
			}
			if len(op.M) > 2 && op.M[2:] == "Move" {
				op.Pt = [2]float64{r.Coord(-3, 3), r.Coord(-3, 3)}
			}
			ops = append(ops, op)
		}
		s.Tasks = append(s.Tasks, ops)
	}
	s.Strategy = "sweep"
}

type absDecision struct {
	at int64
	to int32
}

// finalizeSchedule draws the schedule of a run as an explicit decision list,
// given the number of yield points the reference pass executed.
func finalizeSchedule(s *Spec, r *Rng, fs faultSet, soloSteps int64) {
	nt := int32(len(s.Tasks))
	total := soloSteps
	if total < 4 {
		total = 4
	}
	var abs []absDecision
	var hotDec []verifsim.Decision
	hotAbs := false // the positions in abs count hot yield points only
	pre := ""
	if s.Strategy == "sweep" || s.Strategy == "crowd" || s.Strategy == "marathon" || s.Strategy == "argstorm" || s.Strategy == "vocab" || s.Strategy == "duel" {
		pre = s.Strategy + "+"
	}
	defer func() { s.Strategy = pre + s.Strategy }()
	k0 := r.Intn(100)
	if nHotSites > 0 && r.Chance(0.35) && lastSoloHot > 0 {
		// the library has synchronisation operations and this workload goes
		// through some: aim at their windows
		k0 = 1000
	}
	if s.Strategy == "crowd" && r.Chance(0.5) {
		k0 = 30 // pile-up: the point of a crowd is that everybody is in flight at once
	}
	if debugSolo && pre == "vocab+" {
		o := s.Tasks[0][0]
		ms := map[string]int{}
		for _, t := range s.Tasks {
			for _, op := range t {
				ms[op.M]++
			}
		}
		fmt.Fprintf(os.Stderr, "VOCAB run=%d target=%s/%s N=%d opts=%+v hot=%d ms=%v\n", s.Run, s.Pool[o.R].Kind, s.Pool[o.R].Via, s.Pool[o.R].Shape.N, s.Pool[o.R].Opts, lastSoloHot, ms)
	}
	// (forked generator: the draws of the older strategies stay what they were)
	vr := NewRng(splitmix(deriveSeed(s.Seed, s.Worker, s.Run) ^ 0x686f747374616c6c))
	if lastSoloHot > 0 && pre == "vocab+" && vr.Chance(0.6) {
		k0 = 1000 // argument vocabularies exist for memo protocols: aim at their windows
	}
	switch k := k0; {
	case k == 1000 && lastSoloHot > 0 && vr.Chance(0.4):
		// one to three callers are parked right after a synchronisation
		// operation, each until every other caller has finished ALL its calls
		// (a multi-step publication - seqlock, reference count, double-checked
		// flag - left half done while complete operations of others go by)
		s.Strategy = "hotstall"
		for i := vr.Range(1, 3); i > 0; i-- {
			abs = append(abs, absDecision{at: 1 + int64(vr.U64()%uint64(lastSoloHot)), to: verifsim.ToDemote})
		}
		hotAbs = true
	case k == 1000:
		s.Strategy = "hot"
		n := r.Range(4, 400)
		for i := 0; i < n; i++ {
			to := int32(r.Intn(int(nt)))
			if r.Chance(0.3) {
				to = verifsim.ToDemote
			}
			hotDec = append(hotDec, verifsim.Decision{Gap: int32(r.Range(1, 4)), To: to, Hot: true})
		}
	case k < 8:
		s.Strategy = "none"
	case k < 25:
		s.Strategy = "stall"
		abs = append(abs, absDecision{at: 1 + int64(r.U64()%uint64(total)), to: verifsim.ToDemote})
	case k < 33:
		// pile-up: every task is preempted shortly after it started, so that
		// all of them are inside a call at the same moment
		s.Strategy = "pileup"
		at := int64(0)
		for i := int32(0); i < nt; i++ {
			at += int64(r.Range(1, 80))
			abs = append(abs, absDecision{at: at, to: verifsim.ToDemote})
		}
		if r.Chance(0.5) {
			for i := 0; i < 20; i++ {
				at += int64(r.Range(1, 40))
				abs = append(abs, absDecision{at: at, to: int32(r.Intn(int(nt)))})
			}
		}
	case k < 45:
		d := r.Range(2, 3)
		s.Strategy = "pct"
		for i := 0; i < d; i++ {
			abs = append(abs, absDecision{at: 1 + int64(r.U64()%uint64(total)), to: verifsim.ToDemote})
		}
	case k < 80:
		s.Strategy = "rand"
		mean := int64(r.Pick(1, 2, 4, 16, 64, 256))
		limit := total*3 + 64
		at := int64(0)
		for n := 0; at < limit && n < 200000; n++ {
			at += 1 + int64(r.U64()%uint64(2*mean-1+1))
			to := int32(r.Intn(int(nt)))
			if r.Chance(0.2) {
				to = verifsim.ToDemote
			}
			abs = append(abs, absDecision{at: at, to: to})
		}
	default:
		s.Strategy = "burst"
		nb := r.Range(1, 4)
		for b := 0; b < nb; b++ {
			at := 1 + int64(r.U64()%uint64(total))
			m := r.Range(2, 10)
			for i := 0; i < m; i++ {
				abs = append(abs, absDecision{at: at, to: int32(r.Intn(int(nt)))})
				at += int64(r.Range(1, 3))
			}
		}
	}
	if fs.gc && r.Chance(0.3) {
		ng := r.Range(1, 2)
		for i := 0; i < ng; i++ {
			abs = append(abs, absDecision{at: 1 + int64(r.U64()%uint64(total)), to: verifsim.ToGC})
		}
	}
	sort.SliceStable(abs, func(i, j int) bool { return abs[i].at < abs[j].at })
	s.Decisions = s.Decisions[:0]
	prev := int64(0)
	for _, a := range abs {
		gap := a.at - prev
		if gap < 1 {
			gap = 1
		}
		if gap > 1<<30 {
			gap = 1 << 30
		}
		prev += gap
		s.Decisions = append(s.Decisions, verifsim.Decision{Gap: int32(gap), To: a.to, Hot: hotAbs && a.to != verifsim.ToGC})
	}
	if len(hotDec) > 0 {
		s.Decisions = hotDec
	}
	s.SoloSteps = soloSteps
}
