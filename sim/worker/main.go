// simworker executes simulated runs of the C16 check. It is compiled (with
// -race) against an instrumented scratch copy of the repository under test.
package main

import (
	"encoding/binary"
	"encoding/json"
	"flag"
	"fmt"
	"os"
	"path/filepath"
	"runtime"
	"runtime/pprof"
	"sort"
	"strings"
	"time"

	"github.com/tidwall/geojson/verifsim"
)

// WorkerReport is the aggregate a batch worker writes at the end.
type WorkerReport struct {
	Worker         int               `json:"worker"`
	Seed           uint64            `json:"seed"`
	Tier           string            `json:"tier"`
	Race           bool              `json:"race_detector"`
	GoVersion      string            `json:"go_version"`
	Runs           int               `json:"runs"`
	FirstRun       int               `json:"first_run"`
	WallS          float64           `json:"wall_s"`
	Steps          int64             `json:"steps"`
	SoloSteps      int64             `json:"solo_steps"`
	Switches       int64             `json:"switches"`
	InFlightSw     int64             `json:"inflight_switches"`
	Ops            int               `json:"ops"`
	OpsCompared    int               `json:"ops_compared"`
	SoloAbnormal   int               `json:"solo_abnormal"`
	OverlapPairs   int               `json:"overlap_pairs_same_object"`
	OverlapAny     int               `json:"overlap_pairs_any"`
	NontrivialRuns int               `json:"nontrivial_runs"`
	BuildErrors    int               `json:"build_errors"`
	Faults         map[string]int    `json:"faults_fired"`
	Strategies     map[string]int    `json:"strategies"`
	Methods        map[string]int    `json:"methods"`
	Kinds          map[string]int    `json:"kinds"`
	Triples        map[string]int    `json:"triples"`
	TaskHist       map[string]int    `json:"tasks_hist"`
	SiteHits       []uint32          `json:"site_hits"`
	SitePreempt    []uint32          `json:"site_preempt"`
	ViolationFiles []string          `json:"violation_files"`
	ViolationKeys  map[string]int    `json:"violation_keys"`
	Infra          []string          `json:"infra"`
	FreeRuns       int               `json:"free_runs"`
	StrayRuns      int               `json:"stray_runs"`
	Samples        []json.RawMessage `json:"samples"`
	HashFile       string            `json:"hash_file"`
	NextRun        int               `json:"next_run"`
	Poisoned       bool              `json:"poisoned"`
	Audits         int               `json:"history_audits"`
	ShapeSteps     map[string]int64  `json:"shape_steps"`
	ShapeWallMs    map[string]int64  `json:"shape_wall_ms"`
}

func newReport() *WorkerReport {
	return &WorkerReport{
		Faults: map[string]int{}, Strategies: map[string]int{}, Methods: map[string]int{},
		Kinds: map[string]int{}, Triples: map[string]int{}, TaskHist: map[string]int{},
		ViolationKeys: map[string]int{}, Race: raceEnabled, GoVersion: runtime.Version(),
		ShapeSteps: map[string]int64{}, ShapeWallMs: map[string]int64{},
	}
}

func (w *WorkerReport) add(s *Spec, st *RunStat) {
	w.Runs++
	w.Steps += st.Steps
	w.SoloSteps += st.SoloSteps
	w.Switches += st.Switches
	w.InFlightSw += st.InFlightSw
	w.Ops += st.Ops
	w.OpsCompared += st.OpsCompared
	w.SoloAbnormal += st.SoloAbnormal
	w.OverlapPairs += st.OverlapPairs
	w.OverlapAny += st.OverlapAny
	w.BuildErrors += st.BuildErrors
	if st.Nontrivial {
		w.NontrivialRuns++
	}
	w.Faults["preempt"] += int(st.Switches)
	w.Faults["preempt_in_flight"] += int(st.InFlightSw)
	if st.SoloUnwound {
		w.Faults["run_cut_short_nonterminating_call_alone"]++
	}
	w.Faults["gc"] += int(st.GCs)
	w.Faults["lock_blocked_switch"] += int(st.Blocked)
	if st.Deadlock {
		w.Faults["deadlock_detected"]++
	}
	w.Faults["cancel"] += st.Cancel
	w.Faults["cb_panic"] += st.CBPanic
	w.Faults["goexit_abandon"] += st.Goexit
	w.Faults["reenter"] += st.Reenter
	if s.Strategy == "stall" && st.Switches > 0 {
		w.Faults["stall"]++
	}
	w.Strategies[s.Strategy]++
	w.TaskHist[fmt.Sprint(len(s.Tasks))]++
	for k, v := range st.Methods {
		w.Methods[k] += v
	}
	for k, v := range st.Kinds {
		w.Kinds[k] += v
	}
	for k, v := range st.Triples {
		w.Triples[k] += v
	}
}

var progress int64 // bumped by the batch loop between phases (watchdog)

var curRunVar int

// what the watchdog needs to file the race reports of a run that never ends
var (
	stuckSpec     *Spec
	stuckRaceBase int
	stuckRL       *raceLog
)

//go:norace
func setStuck(s *Spec, base int, rl *raceLog) { stuckSpec, stuckRaceBase, stuckRL = s, base, rl }

//go:norace
func getStuck() (*Spec, int, *raceLog) { return stuckSpec, stuckRaceBase, stuckRL }

//go:norace
func setCurRun(r int) { curRunVar = r }

//go:norace
func getCurRun() int { return curRunVar }

func watchdog(dir string, worker int, limit time.Duration) {
	lastSteps, lastProg := int64(-1), int64(-1)
	lastChange := time.Now()
	for {
		time.Sleep(2 * time.Second)
		s, p := verifsim.Steps(), progressLoad()
		if s != lastSteps || p != lastProg || externalLoad() > 0 {
			lastSteps, lastProg = s, p
			lastChange = time.Now()
			continue
		}
		if time.Since(lastChange) > limit {
			_ = writeJSONFile(filepath.Join(dir, fmt.Sprintf("watchdog-%d.json", worker)), map[string]interface{}{
				"worker": worker, "run": getCurRun(), "steps": s,
			})
			fmt.Fprintf(os.Stderr, "simworker %d: WATCHDOG no progress for %v in run %d\n", worker, limit, getCurRun())
			// race reports of the stuck run must not be lost with the process
			if sp, base, rl := getStuck(); sp != nil && rl != nil && raceErrorCount() > base {
				var real []Violation
				for _, v := range rl.collect() {
					if v.Class == "race" {
						v.Detail += " (reported in a run that afterwards made no progress and was abandoned)"
						real = append(real, v)
					}
				}
				if len(real) > 0 {
					rf := &ReplayFile{Property: "C16", Toolchain: toolchain(), Controlled: !sp.Free, Violations: real, Spec: *sp,
						Note: "the run did not complete (watchdog); the race reports above were produced before it stopped making progress"}
					_ = writeJSONFile(filepath.Join(dir, fmt.Sprintf("viol-%d-%d.json", worker, getCurRun())), rf)
				}
			}
			os.Exit(3)
		}
	}
}

var external int64 // >0 while the worker waits for a subprocess of its own

//go:norace
func externalBegin() { external++; progress++ }

//go:norace
func externalEnd() { external--; progress++ }

//go:norace
func externalLoad() int64 { return external }

//go:norace
func progressLoad() int64 { return progress }

//go:norace
func progressBump() { progress++ }

func toolchain() string { return runtime.Version() }

// nHotSites is the number of yield sites that follow a synchronisation
// operation in the instrumented library (0 on a tree without any).
var nHotSites int

// harvested are the integer constants found in the library source (simctl
// writes them to $GEOSIM_CONSTS): a dictionary of plausible thresholds.
var harvested []int

func loadConstants() {
	p := os.Getenv("GEOSIM_CONSTS")
	if p == "" {
		return
	}
	var cs []int
	if err := readJSONFile(p, &cs); err == nil {
		harvested = cs
	}
	if fp := os.Getenv("GEOSIM_FCONSTS"); fp != "" {
		var fs []float64
		if err := readJSONFile(fp, &fs); err == nil {
			harvestedF = fs
		}
	}
}

// harvestedF are the floating-point literals of the library source.
var harvestedF []float64

// loadHotSites reads the list written by simctl ($GEOSIM_HOT). Call after
// verifsim.SetSites.
func loadHotSites() {
	loadConstants()
	p := os.Getenv("GEOSIM_HOT")
	if p == "" {
		return
	}
	var ids []int
	if err := readJSONFile(p, &ids); err != nil {
		return
	}
	nHotSites = len(ids)
	verifsim.SetHotSites(ids)
}

func cmdBatch(args []string) int {
	fs := flag.NewFlagSet("batch", flag.ExitOnError)
	seed := fs.Uint64("seed", 1, "check seed")
	worker := fs.Int("worker", 0, "worker index")
	tier := fs.String("tier", "quick", "quick|thorough")
	seconds := fs.Float64("seconds", 10, "wall budget")
	maxRuns := fs.Int("maxruns", 0, "stop after this many runs (0 = time only)")
	firstRun := fs.Int("first", 0, "first run index")
	out := fs.String("out", ".", "output directory")
	nsites := fs.Int("sites", 4096, "number of yield sites")
	free := fs.Bool("free", false, "uncontrolled mode for every run")
	wdog := fs.Float64("watchdog", 15, "seconds without progress before giving up")
	maxViol := fs.Int("maxviol", 12, "violating runs to record")
	tag := fs.String("tag", "", "suffix of the output file names (default: worker index)")
	auditEvery := fs.Int("audit", 20, "repeat the reference pass of every n-th run in a fresh process (0 = never)")
	cpuprof := fs.String("cpuprofile", "", "write a CPU profile (debugging)")
	_ = fs.Parse(args)
	if *cpuprof != "" {
		if f, err := os.Create(*cpuprof); err == nil {
			_ = pprof.StartCPUProfile(f)
			defer pprof.StopCPUProfile()
		}
	}

	if *tag == "" {
		*tag = fmt.Sprint(*worker)
	}
	verifsim.SetSites(*nsites)
	auditSites = *nsites
	loadHotSites()
	rl := newRaceLog()
	rep := newReport()
	rep.Worker, rep.Seed, rep.Tier, rep.FirstRun = *worker, *seed, *tier, *firstRun
	setCurRun(*firstRun)
	go watchdog(*out, *worker, time.Duration(*wdog*float64(time.Second)))

	hashes := map[uint64]struct{}{}
	start := time.Now()
	deadline := start.Add(time.Duration(*seconds * float64(time.Second)))
	for run := *firstRun; ; run++ {
		if *maxRuns > 0 && run-*firstRun >= *maxRuns {
			break
		}
		if time.Now().After(deadline) {
			break
		}
		setCurRun(run)
		progressBump()
		t0 := time.Now()
		spec, rng, fset := genSpec(*seed, *worker, run, *tier)
		spec.Free = *free
		setStuck(spec, rl.errors(), rl)
		rr := runSpec(spec, func(solo int64) { finalizeSchedule(spec, rng, fset, solo) }, rl)
		progressBump()
		if *auditEvery > 0 && !rr.Stat.Unwound && (run%*auditEvery == 0 || (spec.Siblings && run%5 == 0)) && len(rr.Violations) == 0 && !spec.Free {
			if vs, err := auditHistory(spec, rr, *nsites, *out); err != nil {
				rep.Infra = append(rep.Infra, err.Error())
			} else {
				rr.Violations = append(rr.Violations, vs...)
				rep.Audits++
			}
			progressBump()
		}
		rep.add(spec, rr.Stat)
		shape := spec.Strategy
		if k := strings.Index(shape, "+"); k > 0 {
			shape = shape[:k]
		} else {
			shape = "plain"
		}
		rep.ShapeSteps[shape] += rr.Stat.Steps + rr.Stat.SoloSteps
		rep.ShapeWallMs[shape] += time.Since(t0).Milliseconds()
		if d := time.Since(t0); d > 5*time.Second {
			nops := 0
			for _, t := range spec.Tasks {
				nops += len(t)
			}
			fmt.Fprintf(os.Stderr, "simworker %d: slow run %d: %.1fs strategy=%s tasks=%d ops=%d solo_steps=%d steps=%d solo_abnormal=%d\n", *worker, run, d.Seconds(), spec.Strategy, len(spec.Tasks), nops, rr.Stat.SoloSteps, rr.Stat.Steps, rr.Stat.SoloAbnormal)
		}
		if rr.Stat.Nontrivial {
			hashes[rr.Stat.CaseHash] = struct{}{}
		}
		rep.Infra = append(rep.Infra, rr.Infra...)
		controlled := !spec.Free
		if rr.Stat.Stray > 0 && !spec.Free {
			// a goroutine the scheduler does not own executed library code:
			// repeat the run uncontrolled (same workload, same oracles)
			rep.StrayRuns++
			controlled = false
			fspec := cloneSpec(spec)
			fspec.Free = true
			for k := 0; k < 3; k++ {
				fr := runSpec(fspec, nil, rl)
				rep.FreeRuns++
				rr.Violations = append(rr.Violations, fr.Violations...)
				rep.Infra = append(rep.Infra, fr.Infra...)
			}
			if len(rr.Violations) > 0 {
				spec = fspec
			}
		}
		if *free {
			rep.FreeRuns++
		}
		if len(rr.Violations) > 0 {
			var real []Violation
			for _, v := range rr.Violations {
				if v.Class == "harness-race" {
					rep.Infra = append(rep.Infra, "race report without library frames:\n"+v.Report)
					continue
				}
				real = append(real, v)
				rep.ViolationKeys[v.Key]++
			}
			if len(real) > 0 && len(rep.ViolationFiles) < *maxViol {
				rf := &ReplayFile{
					Property: "C16", Toolchain: toolchain(), Controlled: controlled,
					TraceHash: fmt.Sprintf("%016x", rr.Stat.TraceHash), Violations: real, Spec: *spec,
				}
				p := filepath.Join(*out, fmt.Sprintf("viol-%d-%d.json", *worker, run))
				if err := writeJSONFile(p, rf); err == nil {
					rep.ViolationFiles = append(rep.ViolationFiles, p)
				}
			}
		}
		rep.NextRun = run + 1
		if rr.Stat.Unwound {
			// tasks were unwound by panic out of library code: locks the library
			// holds at package level may never be released. Continue in a fresh
			// process (the orchestrator restarts this worker at NextRun).
			rep.Poisoned = true
			break
		}
		if len(rep.Samples) < 2 && rr.Stat.Nontrivial && len(spec.Decisions) < 40 && rr.Stat.Ops <= 8 {
			if b, err := json.Marshal(sampleOf(spec, rr.Stat)); err == nil && len(b) < 6000 {
				rep.Samples = append(rep.Samples, b)
			}
		}
	}
	rep.WallS = time.Since(start).Seconds()
	rep.SiteHits, rep.SitePreempt = verifsim.SiteCounters()
	// distinct non-trivial (workload x schedule) identities seen by this worker
	hs := make([]uint64, 0, len(hashes))
	for h := range hashes {
		hs = append(hs, h)
	}
	sort.Slice(hs, func(i, j int) bool { return hs[i] < hs[j] })
	buf := make([]byte, 8*len(hs))
	for i, h := range hs {
		binary.LittleEndian.PutUint64(buf[8*i:], h)
	}
	rep.HashFile = filepath.Join(*out, fmt.Sprintf("hashes-%s.bin", *tag))
	_ = os.WriteFile(rep.HashFile, buf, 0o644)
	if err := writeJSONFile(filepath.Join(*out, fmt.Sprintf("worker-%s.json", *tag)), rep); err != nil {
		fmt.Fprintln(os.Stderr, "simworker: cannot write report:", err)
		return 2
	}
	if rep.Poisoned {
		return 4
	}
	return 0
}

// sampleOf renders one explored case for the evidence file.
func sampleOf(s *Spec, st *RunStat) map[string]interface{} {
	pool := make([]string, len(s.Pool))
	for i := range s.Pool {
		rc := &s.Pool[i]
		pool[i] = fmt.Sprintf("%s via %s n=%d children=%d ig=%d igk=%d ic=%d", rc.Kind, rc.Via, rc.Shape.N, len(rc.Children), rc.Opts.IndexGeometry, rc.Opts.IndexGeometryKind, rc.Opts.IndexChildren)
	}
	return map[string]interface{}{
		"seed": s.Seed, "worker": s.Worker, "run": s.Run, "strategy": s.Strategy,
		"pool": pool, "tasks": s.Tasks, "order": s.Order, "decisions": s.Decisions,
		"steps": st.Steps, "switches": st.Switches, "switches_in_flight": st.InFlightSw,
		"overlapping_pairs_same_object": st.OverlapPairs,
		"trace_hash":                    fmt.Sprintf("%016x", st.TraceHash),
	}
}

// ReplayOutcome is printed by `simworker replay`.
type ReplayOutcome struct {
	TraceHash  string      `json:"trace_hash"`
	Violations []Violation `json:"violations"`
	Infra      []string    `json:"infra"`
	Steps      int64       `json:"steps"`
	Switches   int64       `json:"switches"`
	Stray      int64       `json:"stray"`
	Consumed   int         `json:"consumed"`
	Attempts   int         `json:"attempts"`
}

func cmdReplay(args []string) int {
	fs := flag.NewFlagSet("replay", flag.ExitOnError)
	in := fs.String("in", "", "replay file or bare spec")
	repeat := fs.Int("repeat", 1, "repetitions (uncontrolled specs are repeated until a violation shows)")
	nsites := fs.Int("sites", 4096, "number of yield sites")
	_ = fs.Parse(args)
	var rf ReplayFile
	if err := readJSONFile(*in, &rf); err != nil {
		fmt.Fprintln(os.Stderr, "simworker replay:", err)
		return 2
	}
	verifsim.SetSites(*nsites)
	auditSites = *nsites
	loadHotSites()
	rl := newRaceLog()
	var out ReplayOutcome
	for k := 0; k < *repeat; k++ {
		spec := cloneSpec(&rf.Spec)
		rr := runSpec(spec, nil, rl)
		out.TraceHash = fmt.Sprintf("%016x", rr.Stat.TraceHash)
		out.Steps, out.Switches, out.Stray = rr.Stat.Steps, rr.Stat.Switches, rr.Stat.Stray
		out.Consumed = rr.Stat.Consumed
		out.Attempts = k + 1
		if len(rr.Violations) == 0 && !spec.Free {
			tmp := os.TempDir()
			if vs, err := auditHistory(spec, rr, *nsites, tmp); err == nil {
				rr.Violations = append(rr.Violations, vs...)
			} else {
				out.Infra = append(out.Infra, err.Error())
			}
		}
		out.Infra = append(out.Infra, rr.Infra...)
		for _, v := range rr.Violations {
			if v.Class == "harness-race" {
				out.Infra = append(out.Infra, "harness race:\n"+v.Report)
				continue
			}
			out.Violations = append(out.Violations, v)
		}
		if len(out.Violations) > 0 {
			break
		}
	}
	b, _ := json.MarshalIndent(out, "", " ")
	fmt.Println(string(b))
	return 0
}

// cmdTrace prints "run tracehash" lines for a range of generated runs: the
// determinism self-test compares these across processes and GOMAXPROCS.
func cmdTrace(args []string) int {
	fs := flag.NewFlagSet("trace", flag.ExitOnError)
	seed := fs.Uint64("seed", 1, "check seed")
	worker := fs.Int("worker", 0, "worker index")
	tier := fs.String("tier", "quick", "tier")
	from := fs.Int("from", 0, "first run")
	n := fs.Int("n", 10, "number of runs")
	nsites := fs.Int("sites", 4096, "number of yield sites")
	_ = fs.Parse(args)
	verifsim.SetSites(*nsites)
	loadHotSites()
	rl := newRaceLog()
	for run := *from; run < *from+*n; run++ {
		spec, rng, fset := genSpec(*seed, *worker, run, *tier)
		rr := runSpec(spec, func(solo int64) { finalizeSchedule(spec, rng, fset, solo) }, rl)
		fmt.Printf("%d %016x %d %d %d\n", run, rr.Stat.TraceHash, rr.Stat.Steps, rr.Stat.Switches, len(rr.Violations))
	}
	return 0
}

func main() {
	if len(os.Args) < 2 {
		fmt.Fprintln(os.Stderr, "usage: simworker batch|replay|trace|minimise ...")
		os.Exit(2)
	}
	var rc int
	switch os.Args[1] {
	case "batch":
		rc = cmdBatch(os.Args[2:])
	case "replay":
		rc = cmdReplay(os.Args[2:])
	case "trace":
		rc = cmdTrace(os.Args[2:])
	case "minimise":
		rc = cmdMinimise(os.Args[2:])
	case "audit":
		rc = cmdAudit(os.Args[2:])
	default:
		fmt.Fprintln(os.Stderr, "unknown subcommand", os.Args[1])
		rc = 2
	}
	os.Exit(rc)
}
