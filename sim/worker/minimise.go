package main

import (
	"encoding/json"
	"flag"
	"fmt"
	"os"
	"os/exec"
	"path/filepath"
	"strings"
	"time"

	"github.com/tidwall/geojson/verifsim"
)

// minimiser shrinks a violating Spec while a fresh-process replay keeps
// producing a violation with the same key.
type minimiser struct {
	key      string
	sites    int
	tmp      string
	tests    int
	maxTests int
	deadline time.Time
	repeat   int
	last     *ReplayOutcome
}

func (m *minimiser) replay(s *Spec) (*ReplayOutcome, error) {
	m.tests++
	p := filepath.Join(m.tmp, fmt.Sprintf("cand-%d.json", m.tests))
	rf := &ReplayFile{Property: "C16", Spec: *s}
	if err := writeJSONFile(p, rf); err != nil {
		return nil, err
	}
	defer os.Remove(p)
	cmd := exec.Command(os.Args[0], "replay", "-in", p, "-sites", fmt.Sprint(m.sites), "-repeat", fmt.Sprint(m.repeat))
	logp := filepath.Join(m.tmp, fmt.Sprintf("race-%d", m.tests))
	cmd.Env = append(filterEnv(os.Environ(), "GORACE"), "GORACE=halt_on_error=0 exitcode=0 atexit_sleep_ms=0 history_size=3 log_path="+logp)
	timer := time.AfterFunc(3*time.Minute, func() {
		if cmd.Process != nil {
			_ = cmd.Process.Kill() // a candidate that blocks for real counts as "does not reproduce"
		}
	})
	out, err := cmd.Output()
	timer.Stop()
	if matches, _ := filepath.Glob(logp + ".*"); len(matches) > 0 {
		for _, f := range matches {
			os.Remove(f)
		}
	}
	if err != nil {
		return nil, fmt.Errorf("replay subprocess: %v", err)
	}
	var ro ReplayOutcome
	if err := json.Unmarshal(out, &ro); err != nil {
		return nil, fmt.Errorf("replay output: %v", err)
	}
	return &ro, nil
}

func filterEnv(env []string, drop string) []string {
	var out []string
	for _, e := range env {
		if strings.HasPrefix(e, drop+"=") {
			continue
		}
		out = append(out, e)
	}
	return out
}

func (m *minimiser) exhausted() bool {
	return m.tests >= m.maxTests || time.Now().After(m.deadline)
}

// withDecisions returns a shallow copy of s with another decision list (the
// rest of the spec is shared, read-only).
func withDecisions(s *Spec, d []verifsim.Decision) *Spec {
	c := *s
	c.Decisions = d
	return &c
}

// still reports whether the candidate still shows the target violation.
func (m *minimiser) still(s *Spec) bool {
	if m.exhausted() {
		return false
	}
	ro, err := m.replay(s)
	if err != nil {
		return false
	}
	for _, v := range ro.Violations {
		if v.Key == m.key {
			m.last = ro
			return true
		}
	}
	return false
}

func normaliseIndices(s *Spec) {
	n := len(s.Pool)
	if n == 0 {
		return
	}
	var fix func(op *Op)
	fix = func(op *Op) {
		op.R = absInt(op.R) % n
		op.A = absInt(op.A) % n
		if op.CB != nil && op.CB.Reenter != nil {
			fix(op.CB.Reenter)
		}
	}
	for t := range s.Tasks {
		for i := range s.Tasks[t] {
			fix(&s.Tasks[t][i])
		}
	}
}

func removeTask(s *Spec, t int) *Spec {
	c := cloneSpec(s)
	c.Tasks = append(c.Tasks[:t], c.Tasks[t+1:]...)
	var ord []int32
	for _, o := range c.Order {
		if int(o) == t {
			continue
		}
		if int(o) > t {
			o--
		}
		ord = append(ord, o)
	}
	c.Order = ord
	var dec []verifsim.Decision
	carry := int32(0)
	for _, d := range c.Decisions {
		if d.To >= 0 {
			if int(d.To) == t {
				carry += d.Gap
				continue
			}
			if int(d.To) > t {
				d.To--
			}
		}
		d.Gap += carry
		carry = 0
		dec = append(dec, d)
	}
	c.Decisions = dec
	return c
}

func removeOp(s *Spec, t, i int) *Spec {
	c := cloneSpec(s)
	c.Tasks[t] = append(c.Tasks[t][:i], c.Tasks[t][i+1:]...)
	return c
}

func poolRefs(s *Spec) map[int]bool {
	refs := map[int]bool{}
	var walk func(op *Op)
	walk = func(op *Op) {
		refs[op.R] = true
		refs[op.A] = true // conservatively, even when the method ignores it
		if op.CB != nil && op.CB.Reenter != nil {
			walk(op.CB.Reenter)
		}
	}
	for t := range s.Tasks {
		for i := range s.Tasks[t] {
			walk(&s.Tasks[t][i])
		}
	}
	for i := range s.Pool {
		for _, k := range s.Pool[i].Refs {
			refs[k] = true
		}
	}
	return refs
}

func removePoolObj(s *Spec, k int) *Spec {
	c := cloneSpec(s)
	c.Pool = append(c.Pool[:k], c.Pool[k+1:]...)
	var fix func(op *Op)
	fix = func(op *Op) {
		if op.R > k {
			op.R--
		}
		if op.A > k {
			op.A--
		}
		if op.CB != nil && op.CB.Reenter != nil {
			fix(op.CB.Reenter)
		}
	}
	for t := range c.Tasks {
		for i := range c.Tasks[t] {
			fix(&c.Tasks[t][i])
		}
	}
	for i := range c.Pool {
		for j, r := range c.Pool[i].Refs {
			if r > k {
				c.Pool[i].Refs[j] = r - 1
			}
		}
	}
	return c
}

type absDec struct {
	at  int64
	to  int32
	hot bool
}

func decToAbs(d []verifsim.Decision) []absDec {
	out := make([]absDec, len(d))
	at := int64(0)
	for i, x := range d {
		g := int64(x.Gap)
		if g < 1 {
			g = 1
		}
		at += g
		out[i] = absDec{at: at, to: x.To, hot: x.Hot}
	}
	return out
}

func absToDec(a []absDec) []verifsim.Decision {
	out := make([]verifsim.Decision, 0, len(a))
	prev := int64(0)
	for _, x := range a {
		g := x.at - prev
		if g < 1 {
			g = 1
		}
		prev += g
		out = append(out, verifsim.Decision{Gap: int32(g), To: x.to, Hot: x.hot})
	}
	return out
}

func (m *minimiser) shrinkDecisions(s *Spec) *Spec {
	if len(s.Decisions) == 0 {
		return s
	}
	c := withDecisions(s, nil)
	if m.still(c) {
		return c
	}
	abs := decToAbs(s.Decisions)
	// ddmin over the absolute decision list
	n := 2
	for len(abs) >= 1 && !m.exhausted() {
		chunk := (len(abs) + n - 1) / n
		reduced := false
		for start := 0; start < len(abs) && !m.exhausted(); start += chunk {
			end := start + chunk
			if end > len(abs) {
				end = len(abs)
			}
			cand := append(append([]absDec{}, abs[:start]...), abs[end:]...)
			c := withDecisions(s, absToDec(cand))
			if m.still(c) {
				abs = cand
				s = c
				if n > 2 {
					n--
				}
				reduced = true
				break
			}
		}
		if !reduced {
			if chunk <= 1 {
				break
			}
			n *= 2
			if n > len(abs) {
				n = len(abs)
			}
		}
	}
	return s
}

func shrinkRecipe(rc *Recipe, try func() bool) {
	// fewer children
	for len(rc.Children) > 1 {
		old := rc.Children
		rc.Children = old[:len(old)/2]
		if try() {
			continue
		}
		rc.Children = old[len(old)/2:]
		if try() {
			continue
		}
		rc.Children = old
		break
	}
	if rc.Kind != "Feature" {
		for i := 0; i < len(rc.Children) && len(rc.Children) > 1; i++ {
			old := rc.Children
			rc.Children = append(append([]Recipe{}, old[:i]...), old[i+1:]...)
			if try() {
				i--
				continue
			}
			rc.Children = old
		}
	}
	for _, n := range []int{4, 8, 16, 64} {
		if rc.Shape.N > n {
			old := rc.Shape.N
			rc.Shape.N = n
			if try() {
				break
			}
			rc.Shape.N = old
		}
	}
	if rc.Shape.Holes > 0 {
		old := rc.Shape.Holes
		rc.Shape.Holes = 0
		if !try() {
			rc.Shape.Holes = old
		}
	}
	if rc.Members != "" {
		old := rc.Members
		rc.Members = ""
		if !try() {
			rc.Members = old
		}
	}
	if rc.Dims != 0 {
		old := rc.Dims
		rc.Dims = 0
		if !try() {
			rc.Dims = old
		}
	}
	for i := range rc.Children {
		shrinkRecipe(&rc.Children[i], try)
	}
}

func (m *minimiser) run(s *Spec) *Spec {
	normaliseIndices(s)
	// truncate decisions that were never consumed
	if ro, err := m.replay(s); err == nil {
		m.last = ro
	}
	changed := true
	for round := 0; changed && round < 4 && !m.exhausted(); round++ {
		changed = false
		// 1. drop tasks
		for t := 0; t < len(s.Tasks) && len(s.Tasks) > 1; t++ {
			if c := removeTask(s, t); m.still(c) {
				s = c
				t--
				changed = true
			}
		}
		// 2. drop operations: per task, chunks first (halves, quarters, ...), then singles
		for t := 0; t < len(s.Tasks); t++ {
			for chunk := len(s.Tasks[t]) / 2; chunk >= 1 && !m.exhausted(); chunk /= 2 {
				for i := 0; i+chunk <= len(s.Tasks[t]) && len(s.Tasks[t]) > chunk && !m.exhausted(); {
					c := cloneSpec(s)
					c.Tasks[t] = append(append([]Op{}, c.Tasks[t][:i]...), c.Tasks[t][i+chunk:]...)
					if m.still(c) {
						s = c
						changed = true
					} else {
						i += chunk
					}
				}
			}
		}
		// 3. schedule
		before := len(s.Decisions)
		s = m.shrinkDecisions(s)
		if len(s.Decisions) < before {
			changed = true
		}
		// 4. simplify callbacks and paths
		for t := range s.Tasks {
			for i := range s.Tasks[t] {
				op := &s.Tasks[t][i]
				if op.CB != nil && (op.CB.CancelAt != 0 || op.CB.PanicAt != 0 || op.CB.GoexitAt != 0 || op.CB.ReenterAt != 0) {
					c := cloneSpec(s)
					c.Tasks[t][i].CB = &CB{}
					if m.still(c) {
						s = c
						changed = true
					}
				}
				op = &s.Tasks[t][i]
				if len(op.Path) > 0 || len(op.APath) > 0 {
					c := cloneSpec(s)
					c.Tasks[t][i].Path, c.Tasks[t][i].APath = nil, nil
					if m.still(c) {
						s = c
						changed = true
					}
				}
			}
		}
		// 5. drop unreferenced pool objects
		for k := len(s.Pool) - 1; k >= 0 && len(s.Pool) > 1; k-- {
			if poolRefs(s)[k] {
				continue
			}
			if c := removePoolObj(s, k); m.still(c) {
				s = c
				changed = true
			}
		}
		// 6. shrink shapes
		for k := range s.Pool {
			if m.exhausted() {
				break
			}
			c := cloneSpec(s)
			shrinkRecipe(&c.Pool[k], func() bool {
				if m.still(c) {
					s = cloneSpec(c)
					changed = true
					return true
				}
				return false
			})
		}
		// 7. knobs
		if s.Knobs.Set {
			c := cloneSpec(s)
			c.Knobs = Knobs{}
			if m.still(c) {
				s = c
				changed = true
			}
		}
		if m.tests >= m.maxTests || time.Now().After(m.deadline) {
			break
		}
	}
	return s
}

func cmdMinimise(args []string) int {
	fs := flag.NewFlagSet("minimise", flag.ExitOnError)
	in := fs.String("in", "", "violation file")
	out := fs.String("out", "", "minimised replay file")
	nsites := fs.Int("sites", 4096, "number of yield sites")
	maxTests := fs.Int("maxtests", 600, "replay budget")
	seconds := fs.Float64("seconds", 120, "wall budget")
	wantKey := fs.String("key", "", "violation key to preserve (default: first race, else first)")
	_ = fs.Parse(args)
	var rf ReplayFile
	if err := readJSONFile(*in, &rf); err != nil {
		fmt.Fprintln(os.Stderr, "simworker minimise:", err)
		return 2
	}
	if len(rf.Violations) == 0 {
		fmt.Fprintln(os.Stderr, "simworker minimise: no violation in input")
		return 2
	}
	tmp, err := os.MkdirTemp("", "geosim-min-")
	if err != nil {
		fmt.Fprintln(os.Stderr, "simworker minimise:", err)
		return 2
	}
	defer os.RemoveAll(tmp)
	key := rf.Violations[0].Key
	for _, v := range rf.Violations { // prefer a race: schedule-independent, shrinks furthest
		if v.Class == "race" {
			key = v.Key
			break
		}
	}
	if *wantKey != "" {
		key = *wantKey
	}
	m := &minimiser{key: key, sites: *nsites, tmp: tmp, maxTests: *maxTests, deadline: time.Now().Add(time.Duration(*seconds * float64(time.Second))), repeat: 1}
	if rf.Spec.Free || !rf.Controlled {
		m.repeat = 25
	}
	spec := cloneSpec(&rf.Spec)
	// sanity: the input must reproduce before anything is removed. Four fresh
	// processes: all four => deterministic; some => the library itself is
	// nondeterministic (sync.Pool, map order, its own goroutines): keep going
	// with repeated attempts per candidate.
	if m.repeat == 1 {
		hits := 0
		for k := 0; k < 4; k++ {
			if m.still(spec) {
				hits++
			}
		}
		if hits == 0 {
			m.repeat = 25
		} else if hits < 4 {
			m.repeat = 10
			rf.Flaky = true
		}
	}
	if m.repeat > 1 && !m.still(spec) {
		rf.Note = "violation did not reproduce in fresh processes; file left unminimised"
		rf.Minimised = false
		rf.Flaky = true
		_ = writeJSONFile(*out, &rf)
		fmt.Printf("minimise: NOT reproduced (%d tests)\n", m.tests)
		return 0
	}
	if m.repeat > 1 {
		rf.Flaky = true
	}
	// drop the decisions the run never consumed
	if m.last != nil && m.last.Consumed < len(spec.Decisions) && m.repeat == 1 {
		c := cloneSpec(spec)
		c.Decisions = c.Decisions[:m.last.Consumed]
		if m.still(c) {
			spec = c
		}
	}
	small := m.run(spec)
	// final confirmation, in a fresh process, twice
	m.maxTests += 4
	m.deadline = time.Now().Add(60 * time.Second)
	ok1 := m.still(small)
	h1 := ""
	if m.last != nil {
		h1 = m.last.TraceHash
	}
	ok2 := m.still(small)
	h2 := ""
	if m.last != nil {
		h2 = m.last.TraceHash
	}
	res := rf
	if (ok1 && ok2) || (rf.Flaky && (ok1 || ok2)) {
		res.Spec = *small
		res.Minimised = true
		res.TraceHash = h2
		res.Violations = m.last.Violations
		if h1 != h2 && rf.Controlled && !rf.Flaky {
			res.Note = "trace hash differs between two replays of the minimised file"
		}
	} else {
		res.Note = "minimised candidate failed confirmation; original kept"
	}
	nops := 0
	for _, t := range res.Spec.Tasks {
		nops += len(t)
	}
	if err := writeJSONFile(*out, &res); err != nil {
		fmt.Fprintln(os.Stderr, "simworker minimise:", err)
		return 2
	}
	fmt.Printf("minimise: key=%s tests=%d tasks=%d ops=%d pool=%d decisions=%d minimised=%v\n", key, m.tests, len(res.Spec.Tasks), nops, len(res.Spec.Pool), len(res.Spec.Decisions), res.Minimised)
	return 0
}
