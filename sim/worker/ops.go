package main

import (
	"fmt"
	"math"
	"runtime"
	"strconv"

	"github.com/tidwall/geojson"
	"github.com/tidwall/geojson/geometry"
	"github.com/tidwall/geojson/verifsim"
)

// Reserved yield sites (must match simctl/instrument.go).
const (
	SiteCallback   = 0
	SiteOpBoundary = 1
	SiteReenter    = 2
	SiteTaskStart  = 3
)

// Op status.
const (
	StOK        = 0
	StCBPanic   = 1 // injected callback panic propagated out of the call
	StGoexit    = 2 // injected runtime.Goexit in a callback: task abandoned
	StPanic     = 3 // the library panicked
	StAborted   = 4 // run unwound for exceeding the step budget
	StDropped   = 5 // never started (task abandoned / aborted earlier)
	StExpensive = 6 // reference pass only: returned, but beyond the soft step budget
)

type cbPanic struct{ k int }

// OpResult is what one executed operation produced.
type OpResult struct {
	Status  int
	Res     []byte // canonical result at return
	Late    uint64 // hash of retained returned buffers at end of run
	Start   int64
	End     int64
	CBCalls int
	keepB   [][]byte
	keepS   []string
	keepO   []geojson.Object // objects the library handed to the caller (callback arguments, accessor results)
}

// canon builds a readable canonical encoding of results.
type canon struct {
	b      []byte
	h      uint64 // hash of the folded tail, 0 if nothing was folded
	folded int    // bytes folded into h
}

const (
	canonFoldAt = 32 << 10
	canonKeep   = 1 << 10
)

// sep separates two items. A result that grows beyond canonFoldAt (the callback
// trace of a search over thousands of children) keeps its first canonKeep bytes
// verbatim and folds the rest into a running hash: equality of two results is
// then equality of prefix, folded length and hash.
func (c *canon) sep() {
	if len(c.b) > canonFoldAt {
		c.h = fnv64(c.h, c.b[canonKeep:])
		c.folded += len(c.b) - canonKeep
		c.b = c.b[:canonKeep]
	}
	if len(c.b) > 0 {
		c.b = append(c.b, ' ')
	}
}

// bytes returns the final canonical encoding.
func (c *canon) bytes() []byte {
	if c.folded == 0 {
		return c.b
	}
	if len(c.b) > canonKeep {
		c.h = fnv64(c.h, c.b[canonKeep:])
		c.folded += len(c.b) - canonKeep
		c.b = c.b[:canonKeep]
	}
	return append(c.b, fmt.Sprintf(" ...(+%d bytes folded, fnv=%016x)", c.folded, c.h)...)
}
func (c *canon) B(v bool) {
	c.sep()
	c.b = strconv.AppendBool(c.b, v)
}
func (c *canon) I(v int) {
	c.sep()
	c.b = strconv.AppendInt(c.b, int64(v), 10)
}
func (c *canon) F(v float64) {
	c.sep()
	c.b = strconv.AppendFloat(c.b, v, 'g', -1, 64)
	c.b = append(c.b, '#')
	c.b = strconv.AppendUint(c.b, math.Float64bits(v), 16)
}
func (c *canon) f(v float64) {
	c.b = strconv.AppendUint(c.b, math.Float64bits(v), 16)
}
func (c *canon) Pt(p geometry.Point) {
	c.sep()
	c.b = append(c.b, '(')
	c.b = strconv.AppendFloat(c.b, p.X, 'g', -1, 64)
	c.b = append(c.b, ',')
	c.b = strconv.AppendFloat(c.b, p.Y, 'g', -1, 64)
	c.b = append(c.b, '#')
	c.f(p.X)
	c.b = append(c.b, ',')
	c.f(p.Y)
	c.b = append(c.b, ')')
}
func (c *canon) Rect(r geometry.Rect) {
	c.sep()
	c.b = append(c.b, '[')
	c.Pt(r.Min)
	c.Pt(r.Max)
	c.b = append(c.b, ']')
}
func (c *canon) Seg(s geometry.Segment) {
	c.sep()
	c.b = append(c.b, '<')
	c.Pt(s.A)
	c.Pt(s.B)
	c.b = append(c.b, '>')
}
func (c *canon) Tag(s string) {
	c.sep()
	c.b = append(c.b, s...)
}

func fnv64(h uint64, b []byte) uint64 {
	if h == 0 {
		h = 14695981039346656037
	}
	for _, x := range b {
		h ^= uint64(x)
		h *= 1099511628211
	}
	return h
}

func fnv64s(h uint64, s string) uint64 {
	if h == 0 {
		h = 14695981039346656037
	}
	for i := 0; i < len(s); i++ {
		h ^= uint64(s[i])
		h *= 1099511628211
	}
	return h
}

// Str encodes a string: verbatim when short, else prefix + length + hash.
func (c *canon) Str(s string) {
	verifsim.Charge(len(s) / 32)
	c.sep()
	if len(s) <= 200 {
		c.b = strconv.AppendQuote(c.b, s)
		return
	}
	c.b = strconv.AppendQuote(c.b, s[:96])
	c.b = append(c.b, fmt.Sprintf("...(len=%d,fnv=%016x)", len(s), fnv64s(0, s))...)
}

func typeName(o geojson.Object) string {
	switch o.(type) {
	case nil:
		return "nil"
	case *geojson.Point:
		return "Point"
	case *geojson.SimplePoint:
		return "SimplePoint"
	case *geojson.LineString:
		return "LineString"
	case *geojson.Polygon:
		return "Polygon"
	case *geojson.Rect:
		return "Rect"
	case *geojson.Circle:
		return "Circle"
	case *geojson.MultiPoint:
		return "MultiPoint"
	case *geojson.MultiLineString:
		return "MultiLineString"
	case *geojson.MultiPolygon:
		return "MultiPolygon"
	case *geojson.GeometryCollection:
		return "GeometryCollection"
	case *geojson.Feature:
		return "Feature"
	case *geojson.FeatureCollection:
		return "FeatureCollection"
	}
	return fmt.Sprintf("%T", o)
}

// Obj is a cheap fingerprint of an object (type, rect, point count, empty).
func (c *canon) Obj(o geojson.Object) {
	c.sep()
	if o == nil {
		c.b = append(c.b, "nil"...)
		return
	}
	c.b = append(c.b, typeName(o)...)
	c.b = append(c.b, '{')
	c.Rect(o.Rect())
	c.I(o.NumPoints())
	c.B(o.Empty())
	c.b = append(c.b, '}')
}

func (c *canon) Series(s geometry.Series) {
	c.sep()
	if s == nil {
		c.b = append(c.b, "nilseries"...)
		return
	}
	c.b = append(c.b, "series{"...)
	c.Rect(s.Rect())
	c.I(s.NumPoints())
	c.I(s.NumSegments())
	c.B(s.Convex())
	c.B(s.Clockwise())
	c.B(s.Empty())
	c.b = append(c.b, '}')
}

func (c *canon) Poly(p *geometry.Poly) {
	c.sep()
	if p == nil {
		c.b = append(c.b, "nilpoly"...)
		return
	}
	c.b = append(c.b, "poly{"...)
	c.B(p.Empty())
	c.Rect(p.Rect())
	if p.Exterior != nil {
		c.Series(p.Exterior)
	}
	c.I(len(p.Holes))
	for _, h := range p.Holes {
		c.Series(h)
	}
	c.b = append(c.b, '}')
}

// caller is the execution context of one caller (a task, or the solo pass).
type caller struct {
	pool []geojson.Object
	task int
	sim  bool // controlled or free simulation (Goexit allowed), false = solo
	// retained counts the bytes of returned buffers this caller keeps for the
	// end-of-run re-read; beyond retainCap nothing more is kept (a marathon of
	// serialisations of a large object would otherwise hold gigabytes). Per
	// caller, not shared: shared harness state would need synchronisation, and
	// that would create happens-before edges between tasks.
	retained int
	buf      []byte // the caller's own reusable serialisation buffer (Op.Reuse)
}

const retainCap = 24 << 20

func (x *caller) keepStr(res *OpResult, s string) {
	if x.retained+len(s) > retainCap {
		return
	}
	x.retained += len(s)
	res.keepS = append(res.keepS, s)
}

func (x *caller) keepBytes(res *OpResult, b []byte) {
	if x.retained+len(b) > retainCap {
		return
	}
	x.retained += len(b)
	res.keepB = append(res.keepB, b)
}

func resolve(pool []geojson.Object, idx int, path []int) geojson.Object {
	if len(pool) == 0 {
		return nil
	}
	if idx < 0 {
		idx = -idx
	}
	o := pool[idx%len(pool)]
	for _, p := range path {
		switch v := o.(type) {
		case geojson.Collection:
			ch := v.Children()
			if len(ch) == 0 {
				return o
			}
			if p < 0 {
				p = -p
			}
			o = ch[p%len(ch)]
		case *geojson.Feature:
			o = v.Base()
		case *geojson.Circle:
			o = v.Polygon() // derived object
		case *geojson.Rect:
			o = v.Polygon() // derived object
		default:
			return o
		}
	}
	return o
}

func lineOf(o geojson.Object) *geometry.Line {
	switch v := o.(type) {
	case *geojson.LineString:
		return v.Base()
	case *geojson.Feature:
		return lineOf(v.Base())
	case geojson.Collection:
		for _, ch := range v.Children() {
			if l := lineOf(ch); l != nil {
				return l
			}
		}
	}
	return nil
}

func polyOf(o geojson.Object) *geometry.Poly {
	switch v := o.(type) {
	case *geojson.Polygon:
		return v.Base()
	case *geojson.Circle:
		if p, ok := v.Polygon().(*geojson.Polygon); ok {
			return p.Base()
		}
	case *geojson.Rect:
		if p, ok := v.Polygon().(*geojson.Polygon); ok {
			return p.Base()
		}
	case *geojson.Feature:
		return polyOf(v.Base())
	case geojson.Collection:
		for _, ch := range v.Children() {
			if p := polyOf(ch); p != nil {
				return p
			}
		}
	}
	return nil
}

func opRect(op *Op) geometry.Rect {
	return geometry.Rect{Min: geometry.Point{X: op.Rect[0], Y: op.Rect[1]}, Max: geometry.Point{X: op.Rect[2], Y: op.Rect[3]}}
}

func opPt(op *Op) geometry.Point { return geometry.Point{X: op.Pt[0], Y: op.Pt[1]} }

// cbState implements the caller-supplied callback of an operation, including
// the injected caller-side faults.
type cbState struct {
	x     *caller
	cb    *CB
	c     *canon
	res   *OpResult
	depth int
	n     int
}

func (s *cbState) visit() bool {
	s.n++
	s.res.CBCalls++
	verifsim.Charge(30)
	verifsim.Yield(SiteCallback)
	cb := s.cb
	if cb == nil {
		return true
	}
	if cb.ReenterAt == s.n && cb.Reenter != nil && s.depth == 0 && !verifsim.InCrit() {
		verifsim.Yield(SiteReenter)
		sub := &OpResult{}
		s.x.run(sub, cb.Reenter, s.depth+1)
		s.c.Tag("reenter{")
		s.c.I(sub.Status)
		s.c.b = append(s.c.b, ' ')
		s.c.b = append(s.c.b, sub.Res...)
		s.c.Tag("}")
		s.res.keepB = append(s.res.keepB, sub.keepB...)
		s.res.keepS = append(s.res.keepS, sub.keepS...)
	}
	if cb.PanicAt == s.n && !verifsim.InCrit() {
		panic(cbPanic{s.n})
	}
	if cb.GoexitAt == s.n && s.depth == 0 && !verifsim.InCrit() {
		s.res.Status = StGoexit
		runtime.Goexit()
	}
	if cb.CancelAt == s.n {
		return false
	}
	return true
}

func (s *cbState) objCB(o geojson.Object) bool {
	s.c.Obj(o)
	if len(s.res.keepO) < 12 {
		// a caller may keep what its callback was given and look at it later
		s.res.keepO = append(s.res.keepO, o)
	}
	return s.visit()
}

func (s *cbState) segCB(seg geometry.Segment, idx int) bool {
	s.c.Seg(seg)
	s.c.I(idx)
	return s.visit()
}

// run executes one operation and records how it ended in res, which the
// caller pre-allocates so that the outcome survives a Goexit or Abort
// unwinding through the caller.
func (x *caller) run(res *OpResult, op *Op, depth int) {
	*res = OpResult{Status: StOK}
	c := &canon{}
	done := false
	defer func() {
		res.Res = c.bytes()
		res.End = verifsim.Steps()
		if r := recover(); r != nil {
			switch v := r.(type) {
			case verifsim.Abort:
				res.Status = StAborted
				panic(v) // keep unwinding the task
			case cbPanic:
				res.Status = StCBPanic
				c.Tag("panic:cb@" + strconv.Itoa(v.k))
				res.Res = c.bytes()
			default:
				res.Status = StPanic
				c.Tag("panic:" + fmt.Sprint(r))
				res.Res = c.bytes()
			}
			return
		}
		if !done && res.Status == StOK {
			// neither returned nor panicked: a callback called Goexit
			res.Status = StGoexit
		}
	}()
	res.Start = verifsim.Steps()
	x.dispatch(op, depth, c, res)
	done = true
}

func (x *caller) dispatch(op *Op, depth int, c *canon, res *OpResult) {
	o := resolve(x.pool, op.R, op.Path)
	if o == nil {
		c.Tag("n/a")
		return
	}
	cb := &cbState{x: x, cb: op.CB, c: c, res: res, depth: depth}
	var arg geojson.Object
	needArg := func() geojson.Object {
		if arg == nil {
			arg = resolve(x.pool, op.A, op.APath)
		}
		return arg
	}
	switch op.M {
	// ---- Object interface
	case "Empty":
		c.B(o.Empty())
	case "Valid":
		c.B(o.Valid())
	case "Rect":
		c.Rect(o.Rect())
	case "Center":
		c.Pt(o.Center())
	case "NumPoints":
		c.I(o.NumPoints())
	case "JSON":
		s := o.JSON()
		c.Str(s)
		x.keepStr(res, s)
	case "String":
		s := o.String()
		c.Str(s)
		x.keepStr(res, s)
	case "Members":
		s := o.Members()
		c.Str(s)
		x.keepStr(res, s)
	case "MarshalJSON":
		b, err := o.MarshalJSON()
		c.Str(string(b))
		c.B(err == nil)
		// never overwritten by the caller: a library may legitimately return a
		// cached read-only slice from MarshalJSON (see gen.go)
		x.keepBytes(res, b)
	case "AppendJSON":
		capn := op.Cap
		if capn < len(op.Prefix) {
			capn = len(op.Prefix)
		}
		if op.Reuse {
			out := o.AppendJSON(x.buf[:0])
			c.Str(string(out))
			x.buf = out
			return
		}
		dst := make([]byte, len(op.Prefix), capn)
		copy(dst, op.Prefix)
		out := o.AppendJSON(dst)
		c.Str(string(out))
		if op.Scribble {
			for i := range out {
				out[i] = '#'
			}
		} else {
			x.keepBytes(res, out)
		}
	case "Contains":
		c.B(o.Contains(needArg()))
	case "Within":
		c.B(o.Within(needArg()))
	case "Intersects":
		c.B(o.Intersects(needArg()))
	case "Distance":
		c.F(o.Distance(needArg()))
	case "ForEach":
		r := o.ForEach(cb.objCB)
		c.Tag("ret")
		c.B(r)
	case "Spatial":
		sp := o.Spatial()
		c.Tag(fmt.Sprintf("%T", sp))
	case "IsPoint":
		z, ok := geojson.IsPoint(o)
		c.F(z)
		c.B(ok)
	// ---- Spatial interface
	case "WithinRect":
		c.B(o.Spatial().WithinRect(opRect(op)))
	case "WithinPoint":
		c.B(o.Spatial().WithinPoint(opPt(op)))
	case "IntersectsRect":
		c.B(o.Spatial().IntersectsRect(opRect(op)))
	case "IntersectsPoint":
		c.B(o.Spatial().IntersectsPoint(opPt(op)))
	case "DistanceRect":
		c.F(o.Spatial().DistanceRect(opRect(op)))
	case "DistancePoint":
		c.F(o.Spatial().DistancePoint(opPt(op)))
	case "WithinLine", "IntersectsLine", "DistanceLine":
		l := lineOf(needArg())
		if l == nil {
			c.Tag("n/a")
			return
		}
		switch op.M {
		case "WithinLine":
			c.B(o.Spatial().WithinLine(l))
		case "IntersectsLine":
			c.B(o.Spatial().IntersectsLine(l))
		default:
			c.F(o.Spatial().DistanceLine(l))
		}
	case "WithinPoly", "IntersectsPoly", "DistancePoly":
		p := polyOf(needArg())
		if p == nil {
			c.Tag("n/a")
			return
		}
		switch op.M {
		case "WithinPoly":
			c.B(o.Spatial().WithinPoly(p))
		case "IntersectsPoly":
			c.B(o.Spatial().IntersectsPoly(p))
		default:
			c.F(o.Spatial().DistancePoly(p))
		}
	// ---- Collection interface
	case "Children":
		col, ok := o.(geojson.Collection)
		if !ok {
			c.Tag("n/a")
			return
		}
		ch := col.Children()
		c.I(len(ch))
		for i, k := range ch {
			if i >= 8 {
				break
			}
			c.Obj(k)
		}
	case "Indexed":
		col, ok := o.(geojson.Collection)
		if !ok {
			c.Tag("n/a")
			return
		}
		c.B(col.Indexed())
	case "Search":
		col, ok := o.(geojson.Collection)
		if !ok {
			c.Tag("n/a")
			return
		}
		col.Search(opRect(op), cb.objCB)
		c.Tag("end")
	// ---- type-specific accessors
	case "TypeSpecific":
		x.typeSpecific(o, op, c, res)
	// ---- geometry level (through Base())
	default:
		x.geomOp(o, op, c, res, cb, needArg)
	}
}

func (x *caller) typeSpecific(o geojson.Object, op *Op, c *canon, res *OpResult) {
	switch v := o.(type) {
	case *geojson.Point:
		c.Pt(v.Base())
		c.F(v.Z())
		c.B(v.IsSimple())
	case *geojson.SimplePoint:
		c.Pt(v.Base())
	case *geojson.Rect:
		c.Rect(v.Base())
		p := v.Polygon()
		res.keepO = append(res.keepO, p)
		c.Obj(p)
		s := p.JSON()
		c.Str(s)
	case *geojson.Circle:
		c.F(v.Meters())
		c.F(v.Haversine())
		c.F(v.HaversineTo(opPt(op)))
		c.Pt(v.Center())
		p := v.Polygon()
		res.keepO = append(res.keepO, p)
		c.Obj(p)
		s := p.JSON()
		c.Str(s)
		x.keepStr(res, s)
	case *geojson.Polygon:
		c.Poly(v.Base())
		c.B(v.HasExtra())
	case *geojson.LineString:
		c.Series(v.Base())
		c.B(v.Base().Closed())
	case *geojson.Feature:
		res.keepO = append(res.keepO, v.Base())
		c.Obj(v.Base())
	default:
		if b, ok := o.(interface{ Base() []geojson.Object }); ok {
			ch := b.Base()
			c.I(len(ch))
			if len(ch) > 0 {
				c.Obj(ch[len(ch)-1])
			}
		}
		if col, ok := o.(geojson.Collection); ok {
			c.B(col.Indexed())
		}
	}
}

func pickSeries(o geojson.Object, op *Op) geometry.Series {
	if l := lineOf(o); l != nil {
		if _, isLS := o.(*geojson.LineString); isLS || polyOf(o) == nil {
			return l
		}
	}
	p := polyOf(o)
	if p == nil || p.Exterior == nil {
		return nil
	}
	k := op.Ring
	if k < 0 {
		k = -k
	}
	k = k % (1 + len(p.Holes))
	if k == 0 {
		return p.Exterior
	}
	return p.Holes[k-1]
}

func (x *caller) geomOp(o geojson.Object, op *Op, c *canon, res *OpResult, cb *cbState, needArg func() geojson.Object) {
	m := op.M
	if len(m) < 3 {
		c.Tag("unknown-op")
		return
	}
	switch m[:2] {
	case "S.": // geometry.Series of a line / ring
		s := pickSeries(o, op)
		if s == nil {
			c.Tag("n/a")
			return
		}
		switch m[2:] {
		case "Rect":
			c.Rect(s.Rect())
		case "Empty":
			c.B(s.Empty())
		case "Convex":
			c.B(s.Convex())
		case "Clockwise":
			c.B(s.Clockwise())
		case "NumPoints":
			c.I(s.NumPoints())
		case "NumSegments":
			c.I(s.NumSegments())
		case "Valid":
			c.B(s.Valid())
		case "PointAt":
			n := s.NumPoints()
			if n == 0 {
				c.Tag("n/a")
				return
			}
			c.Pt(s.PointAt(absInt(op.I) % n))
		case "SegmentAt":
			n := s.NumSegments()
			if n == 0 {
				c.Tag("n/a")
				return
			}
			c.Seg(s.SegmentAt(absInt(op.I) % n))
		case "Search":
			s.Search(opRect(op), cb.segCB)
			c.Tag("end")
		case "Index":
			switch idx := s.Index().(type) {
			case nil:
				c.Tag("noindex")
			case []byte:
				c.Tag("bytes")
				c.I(len(idx))
				c.Tag(strconv.FormatUint(fnv64(0, idx), 16))
				x.keepBytes(res, idx)
			default:
				c.Tag(fmt.Sprintf("%T", idx))
			}
		default:
			c.Tag("unknown-op")
		}
	case "L.": // *geometry.Line
		l := lineOf(o)
		if l == nil {
			c.Tag("n/a")
			return
		}
		x.geometryIface(l, nil, m[2:], op, c, needArg)
	case "P.": // *geometry.Poly
		p := polyOf(o)
		if p == nil {
			c.Tag("n/a")
			return
		}
		x.geometryIface(nil, p, m[2:], op, c, needArg)
	default:
		c.Tag("unknown-op")
	}
}

func absInt(i int) int {
	if i < 0 {
		return -i
	}
	return i
}

func (x *caller) geometryIface(l *geometry.Line, p *geometry.Poly, m string, op *Op, c *canon, needArg func() geojson.Object) {
	var g geometry.Geometry
	if l != nil {
		g = l
	} else {
		g = p
	}
	switch m {
	case "Rect":
		c.Rect(g.Rect())
	case "Empty":
		c.B(g.Empty())
	case "Valid":
		c.B(g.Valid())
	case "ContainsPoint":
		c.B(g.ContainsPoint(opPt(op)))
	case "IntersectsPoint":
		c.B(g.IntersectsPoint(opPt(op)))
	case "ContainsRect":
		c.B(g.ContainsRect(opRect(op)))
	case "IntersectsRect":
		c.B(g.IntersectsRect(opRect(op)))
	case "ContainsLine", "IntersectsLine":
		al := lineOf(needArg())
		if al == nil {
			c.Tag("n/a")
			return
		}
		if m == "ContainsLine" {
			c.B(g.ContainsLine(al))
		} else {
			c.B(g.IntersectsLine(al))
		}
	case "ContainsPoly", "IntersectsPoly":
		ap := polyOf(needArg())
		if ap == nil {
			c.Tag("n/a")
			return
		}
		if m == "ContainsPoly" {
			c.B(g.ContainsPoly(ap))
		} else {
			c.B(g.IntersectsPoly(ap))
		}
	case "Clockwise":
		if p != nil {
			c.B(p.Clockwise())
		} else {
			c.B(l.Clockwise())
		}
	case "Move":
		dx, dy := op.Pt[0], op.Pt[1]
		if l != nil {
			nl := l.Move(dx, dy)
			c.Series(nl)
			c.B(nl.ContainsPoint(geometry.Point{X: op.Rect[0], Y: op.Rect[1]}))
			c.B(nl.Index() != nil)
		} else {
			np := p.Move(dx, dy)
			c.Poly(np)
			c.B(np.ContainsPoint(geometry.Point{X: op.Rect[0], Y: op.Rect[1]}))
		}
	default:
		c.Tag("unknown-op")
	}
}

// lateHash re-reads every buffer an operation returned, at the end of the run.
func (r *OpResult) lateHash() uint64 {
	var h uint64
	for _, b := range r.keepB {
		h = fnv64(h, b)
		h = fnv64(h, []byte{0xff})
	}
	for _, s := range r.keepS {
		h = fnv64s(h, s)
		h = fnv64(h, []byte{0xfe})
	}
	for _, o := range r.keepO {
		var c canon
		func() {
			defer func() {
				if p := recover(); p != nil {
					c.Tag("panic")
				}
			}()
			c.Obj(o)
		}()
		h = fnv64(h, c.b)
		h = fnv64(h, []byte{0xfd})
	}
	return h
}
