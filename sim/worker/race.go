package main

import (
	"fmt"
	"os"
	"sort"
	"strings"
)

// raceLog follows the race runtime's report file of this process
// (GORACE=log_path=<prefix> writes to <prefix>.<pid>).
type raceLog struct {
	path string
	off  int64
}

func newRaceLog() *raceLog {
	rl := &raceLog{}
	for _, kv := range strings.Fields(os.Getenv("GORACE")) {
		if strings.HasPrefix(kv, "log_path=") {
			rl.path = fmt.Sprintf("%s.%d", strings.TrimPrefix(kv, "log_path="), os.Getpid())
		}
	}
	return rl
}

func (rl *raceLog) errors() int { return raceErrorCount() }

// collect parses the reports appended since the last call.
func (rl *raceLog) collect() []Violation {
	if rl.path == "" {
		return []Violation{{Class: "race", Key: "race:?|?", Detail: "race reported but GORACE log_path is not set"}}
	}
	b, err := os.ReadFile(rl.path)
	if err != nil || int64(len(b)) <= rl.off {
		return []Violation{{Class: "race", Key: "race:?|?", Detail: "race counter increased but no report text found"}}
	}
	txt := string(b[rl.off:])
	rl.off = int64(len(b))
	return parseRaceReports(txt)
}

func isAccessHeader(l string) bool {
	for _, p := range []string{"Write at ", "Read at ", "Previous write at ", "Previous read at ", "Atomic write at ", "Atomic read at ", "Previous atomic write at ", "Previous atomic read at "} {
		if strings.HasPrefix(l, p) {
			return true
		}
	}
	return false
}

// isLibFrame: code of the library under test or of its dependencies.
func isLibFrame(fn string) bool {
	if !strings.HasPrefix(fn, "github.com/tidwall/") {
		return false
	}
	if strings.Contains(fn, "/verifsim.") {
		return false
	}
	return true
}

func parseRaceReports(txt string) []Violation {
	var out []Violation
	for _, blk := range strings.Split(txt, "==================") {
		if !strings.Contains(blk, "WARNING: DATA RACE") {
			continue
		}
		lines := strings.Split(blk, "\n")
		var tops []string
		var locs []string
		libSeen := false
		for i := 0; i < len(lines); i++ {
			if !isAccessHeader(lines[i]) {
				continue
			}
			top, loc := "?", ""
			j := i + 1
			for ; j < len(lines); j++ {
				l := lines[j]
				if strings.TrimSpace(l) == "" {
					break
				}
				if strings.HasPrefix(l, "  ") && !strings.HasPrefix(l, "   ") {
					fn := strings.TrimSpace(l)
					if k := strings.LastIndex(fn, "("); k > 0 {
						fn = fn[:k]
					}
					if isLibFrame(fn) && top == "?" {
						top = fn
						if j+1 < len(lines) {
							loc = strings.TrimSpace(lines[j+1])
							if k := strings.Index(loc, " +0x"); k > 0 {
								loc = loc[:k]
							}
						}
					}
				}
			}
			if top != "?" {
				libSeen = true
			}
			tops = append(tops, top)
			locs = append(locs, loc)
			i = j
		}
		for len(tops) < 2 {
			tops = append(tops, "?")
			locs = append(locs, "")
		}
		pair := []string{tops[0], tops[1]}
		sort.Strings(pair)
		v := Violation{
			Class:  "race",
			Key:    "race:" + pair[0] + "|" + pair[1],
			Detail: fmt.Sprintf("data race between %s (%s) and %s (%s)", tops[0], locs[0], tops[1], locs[1]),
			Report: strings.TrimSpace(blk),
		}
		if !libSeen {
			v.Class = "harness-race"
			v.Key = "harness-race"
		}
		out = append(out, v)
	}
	return out
}
