//go:build !race

package main

const raceEnabled = false

func raceErrorCount() int { return 0 }
