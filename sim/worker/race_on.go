//go:build race

package main

import "runtime"

const raceEnabled = true

func raceErrorCount() int { return runtime.RaceErrors() }
