package main

import "math"

// Rng is a self-contained PRNG (splitmix64) so that a seed means the same run
// on every Go version. It is the only source of choices in a worker.
type Rng struct{ s uint64 }

func splitmix(x uint64) uint64 {
	x += 0x9e3779b97f4a7c15
	z := x
	z = (z ^ (z >> 30)) * 0xbf58476d1ce4e5b9
	z = (z ^ (z >> 27)) * 0x94d049bb133111eb
	return z ^ (z >> 31)
}

// deriveSeed mixes the check seed, worker index and run index.
func deriveSeed(seed uint64, worker, run int) uint64 {
	x := splitmix(seed ^ 0x5851f42d4c957f2d)
	x = splitmix(x ^ uint64(worker)*0x9e3779b97f4a7c15)
	x = splitmix(x ^ uint64(run)*0xd1b54a32d192ed03)
	return x
}

func NewRng(seed uint64) *Rng { return &Rng{s: seed} }

func (r *Rng) U64() uint64 {
	r.s += 0x9e3779b97f4a7c15
	z := r.s
	z = (z ^ (z >> 30)) * 0xbf58476d1ce4e5b9
	z = (z ^ (z >> 27)) * 0x94d049bb133111eb
	return z ^ (z >> 31)
}

// Intn returns a value in [0,n).
func (r *Rng) Intn(n int) int {
	if n <= 1 {
		return 0
	}
	return int(r.U64() % uint64(n))
}

// Range returns a value in [lo,hi].
func (r *Rng) Range(lo, hi int) int {
	if hi <= lo {
		return lo
	}
	return lo + r.Intn(hi-lo+1)
}

func (r *Rng) Float() float64 { return float64(r.U64()>>11) / (1 << 53) }

func (r *Rng) Chance(p float64) bool { return r.Float() < p }

func (r *Rng) Pick(xs ...int) int { return xs[r.Intn(len(xs))] }

func (r *Rng) PickF(xs ...float64) float64 { return xs[r.Intn(len(xs))] }

func (r *Rng) PickS(xs ...string) string { return xs[r.Intn(len(xs))] }

// Coord returns a coordinate rounded to 1/64 so that JSON text round-trips
// trivially and shapes share vertices/edges reasonably often.
func (r *Rng) Coord(lo, hi float64) float64 {
	v := lo + (hi-lo)*r.Float()
	return math.Round(v*64) / 64
}

func (r *Rng) Perm(n int) []int32 {
	p := make([]int32, n)
	for i := range p {
		p[i] = int32(i)
	}
	for i := n - 1; i > 0; i-- {
		j := r.Intn(i + 1)
		p[i], p[j] = p[j], p[i]
	}
	return p
}
