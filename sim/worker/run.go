package main

import (
	"bytes"
	"encoding/json"
	"flag"
	"fmt"
	"os"
	"os/exec"
	"path/filepath"
	"sort"
	"strings"
	"sync"
	"time"

	"github.com/tidwall/geojson"
	"github.com/tidwall/geojson/verifsim"
)

const soloBudgetPerTask = 20_000_000

// soloRunBudget bounds the yield points of one whole reference pass (and so,
// roughly, of one run): many bounded runs beat a few endless ones.
func soloRunBudget(tier string) int64 {
	if tier == "thorough" {
		return 300_000_000
	}
	return 40_000_000
}

var debugSolo = os.Getenv("GEOSIM_DEBUG") != ""

func soloOpBudget(tier string) int64 {
	if tier == "thorough" {
		return 8_000_000
	}
	return 2_000_000
}

// RunStat is the per-run statistics the worker aggregates.
type RunStat struct {
	Steps        int64
	SoloSteps    int64
	Switches     int64
	InFlightSw   int64
	GCs          int64
	Decisions    int
	Consumed     int
	Ops          int
	OpsCompared  int
	SoloAbnormal int
	OverlapPairs int // pairs of operations of different tasks, overlapping in time, sharing an object
	OverlapAny   int // overlapping in time (any objects)
	Cancel       int
	CBPanic      int
	Goexit       int
	Reenter      int
	CBCalls      int
	BuildErrors  int
	Stray        int64
	Blocked      int64
	Deadlock     bool
	Unwound      bool // the run was aborted (hang or deadlock): library locks may be left held
	SoloUnwound  bool // a call did not terminate even alone and was unwound: run cut short
	TraceHash    uint64
	CaseHash     uint64 // workload x schedule identity
	Nontrivial   bool
	Methods      map[string]int
	Kinds        map[string]int
	Triples      map[string]int // kind|methodA|methodB of overlapping pairs on one object
	SoloRes      [][]*OpResult
	SimRes       [][]*OpResult
}

func newTaskResults(tasks [][]Op) [][]*OpResult {
	out := make([][]*OpResult, len(tasks))
	for t := range tasks {
		out[t] = make([]*OpResult, len(tasks[t]))
		for i := range out[t] {
			out[t][i] = &OpResult{Status: StDropped}
		}
	}
	return out
}

type harnessPanic struct {
	task int
	val  interface{}
}

// taskBody is what every simulated caller goroutine runs.
func taskBody(x *caller, id int, ops []Op, skip []bool, results []*OpResult, hp *[]harnessPanic, hpMu *sync.Mutex) {
	defer func() {
		if r := recover(); r != nil {
			if _, ok := r.(verifsim.Abort); !ok {
				hpMu.Lock()
				*hp = append(*hp, harnessPanic{task: id, val: r})
				hpMu.Unlock()
			}
		}
		verifsim.Finish(id)
	}()
	verifsim.WaitTurn(id)
	verifsim.Yield(SiteTaskStart)
	for i := range ops {
		if skip[i] {
			continue
		}
		verifsim.OpBoundary(false)
		verifsim.Yield(SiteOpBoundary)
		verifsim.OpBoundary(true)
		x.run(results[i], &ops[i], 0)
	}
	verifsim.OpBoundary(false)
}

// soloPass executes every task's operation list alone, one task after the
// other, each in its own goroutine, on the twin pool. Every operation gets its
// own step budget; one that exceeds it (or panics) is "solo-abnormal": it is
// excluded from the simulated pass and from comparison (that is C05's
// business, not C16's).
// soloUnwound reports whether the last soloPass had to unwind an operation out
// of library code (step budget exceeded). The panic that does this is raised at
// a generated yield point, i.e. possibly where the original code could not
// panic (between `sem.acquire()` and `defer sem.release()`, say): whatever the
// library holds there stays held. Nothing that runs in this process afterwards
// can be trusted, so the run ends there and the worker restarts.
var soloUnwound bool

// lastSoloHot: yield points right after synchronisation operations that the
// most recent reference pass went through (finalizeSchedule places the
// "hotstall" preemptions among them).
var lastSoloHot int64

func soloPass(s *Spec, pool []geojson.Object, opBudget int64, taskOrder []int) (results [][]*OpResult, steps int64, hps []harnessPanic) {
	totalBudget := soloRunBudget(s.Tier)
	soloUnwound = false
	hot0 := verifsim.HotTotal()
	defer func() { lastSoloHot = verifsim.HotTotal() - hot0 }()
	results = newTaskResults(s.Tasks)
	var mu sync.Mutex
	// operations already seen not to terminate normally in this pass: an
	// identical one is marked without being executed again (a workload may
	// repeat one operation thousands of times)
	abnormal := map[string]int{}
	opKey := func(op *Op) string {
		b, _ := json.Marshal(op)
		return string(b)
	}
	if taskOrder == nil {
		for t := range s.Tasks {
			taskOrder = append(taskOrder, t)
		}
	}
	for _, t := range taskOrder {
		if soloUnwound {
			break
		}
		done := make(chan struct{})
		go func(t int) {
			defer close(done)
			verifsim.SetMode(verifsim.ModeSolo, opBudget)
			x := &caller{pool: pool, task: t, sim: false}
			for i := range s.Tasks[t] {
				if soloUnwound {
					break
				}
				if steps+verifsim.Steps() > totalBudget {
					// the run as a whole is long enough: the remaining operations
					// of this workload are left out (marked like non-terminating
					// ones, i.e. skipped in the simulated pass and not compared)
					results[t][i].Status = StAborted
					continue
				}
				if len(abnormal) > 0 {
					if st, ok := abnormal[opKey(&s.Tasks[t][i])]; ok {
						results[t][i].Status = st
						continue
					}
				}
				goexit := true
				func() {
					defer func() {
						if r := recover(); r != nil {
							goexit = false
							if _, ok := r.(verifsim.Abort); !ok {
								mu.Lock()
								hps = append(hps, harnessPanic{task: t, val: r})
								mu.Unlock()
							}
						}
					}()
					verifsim.OpBoundary(false)
					verifsim.SetOpBudgets(opBudget, 12*opBudget)
					verifsim.Yield(SiteOpBoundary)
					verifsim.OpBoundary(true)
					x.run(results[t][i], &s.Tasks[t][i], 0)
					goexit = false
				}()
				_ = goexit
				if verifsim.SoftExceeded() && results[t][i].Status != StAborted {
					// expensive but it returned: left out of the simulated pass like a
					// non-terminating call, but nothing was unwound, the process is clean
					results[t][i].Status = StExpensive
					abnormal[opKey(&s.Tasks[t][i])] = StExpensive
				}
				if st := results[t][i].Status; st == StPanic || st == StAborted {
					abnormal[opKey(&s.Tasks[t][i])] = st
					if st == StAborted {
						soloUnwound = true
					}
				}
			}
			steps += verifsim.Steps()
			verifsim.SetMode(verifsim.ModeOff, 0)
		}(t)
		<-done
		// a Goexit in a callback ended the goroutine: account for its steps here
		if verifsim.Mode() == verifsim.ModeSolo {
			steps += verifsim.Steps()
			verifsim.SetMode(verifsim.ModeOff, 0)
		}
	}
	for t := range results {
		for _, r := range results[t] {
			r.Late = r.lateHash()
		}
	}
	return
}

// simPass runs all tasks under the controlled scheduler (or free, if
// s.Free) on a fresh pool.
func simPass(s *Spec, pool []geojson.Object, skip [][]bool, budget int64) (results [][]*OpResult, st verifsim.RunStats, hps []harnessPanic) {
	results = newTaskResults(s.Tasks)
	var wg sync.WaitGroup
	var mu sync.Mutex
	n := len(s.Tasks)
	if s.Free {
		verifsim.SetMode(verifsim.ModeFree, 0)
	} else {
		verifsim.Configure(n, s.Order, s.Decisions, budget)
	}
	for t := 0; t < n; t++ {
		wg.Add(1)
		x := &caller{pool: pool, task: t, sim: true}
		go func(t int, x *caller) {
			defer wg.Done()
			taskBody(x, t, s.Tasks[t], skip[t], results[t], &hps, &mu)
		}(t, x)
	}
	if !s.Free {
		verifsim.Begin()
	}
	wg.Wait()
	st = verifsim.Stats()
	verifsim.SetMode(verifsim.ModeOff, 0)
	for t := range results {
		for _, r := range results[t] {
			r.Late = r.lateHash()
		}
	}
	return
}

func recvKind(pool []geojson.Object, op *Op) string {
	defer func() { _ = recover() }()
	return typeName(resolve(pool, op.R, op.Path))
}

func trunc(b []byte, n int) string {
	if len(b) <= n {
		return string(b)
	}
	return string(b[:n]) + fmt.Sprintf("...(+%d bytes)", len(b)-n)
}

// compare applies the value and abnormal oracles.
func compare(s *Spec, kinds [][]string, solo, sim [][]*OpResult, skip [][]bool, deadlock bool, st *RunStat) []Violation {
	var vs []Violation
	simAborted := false
	for t := range sim {
		for _, r := range sim[t] {
			if r.Status == StAborted {
				simAborted = true
			}
		}
	}
	for t := range s.Tasks {
		for i := range s.Tasks[t] {
			op := &s.Tasks[t][i]
			a, b := solo[t][i], sim[t][i]
			if skip[t][i] {
				st.SoloAbnormal++
				continue
			}
			st.OpsCompared++
			kind := kinds[t][i]
			mk := func(class, what string) Violation {
				return Violation{
					Class: class, Key: class + ":" + op.M + ":" + kind + ":" + what,
					Task: t, OpIndex: i, Method: op.M, Kind: kind,
					Got: trunc(b.Res, 600), Want: trunc(a.Res, 600),
				}
			}
			if simAborted && b.Status != StAborted {
				continue // the run was unwound; only the calls that hung are reported
			}
			switch {
			case b.Status == StAborted && deadlock:
				v := mk("abnormal", "deadlock")
				v.Detail = "every caller was blocked on a library lock with no release in between: the calls in flight never return (alone, each of them does)"
				vs = append(vs, v)
			case b.Status == StAborted:
				v := mk("abnormal", "hang")
				v.Detail = "the call did not return within the step budget while its solo counterpart did"
				vs = append(vs, v)
			case a.Status != b.Status && b.Status == StPanic:
				v := mk("abnormal", "panic")
				v.Detail = "the call panicked under interleaving; alone it does not"
				vs = append(vs, v)
			case a.Status != b.Status:
				v := mk("value", "status")
				v.Detail = fmt.Sprintf("status alone=%d interleaved=%d", a.Status, b.Status)
				vs = append(vs, v)
			case !bytes.Equal(a.Res, b.Res):
				v := mk("value", "result")
				v.Detail = "the call returned a different value than when run alone"
				vs = append(vs, v)
			case a.Late != b.Late:
				v := mk("value", "late")
				v.Detail = fmt.Sprintf("a buffer/string returned by the call changed after it returned (hash of returned buffers at end of run: interleaved %016x, alone %016x)", b.Late, a.Late)
				vs = append(vs, v)
			}
		}
	}
	return vs
}

func objRoots(op *Op, n int) (int, int) {
	r := op.R % n
	a := -1
	if usesArg(op.M) {
		a = op.A % n
	}
	return r, a
}

// overlapStats counts pairs of operations of different tasks whose executions
// overlapped in logical time.
func overlapStats(s *Spec, kinds [][]string, sim [][]*OpResult, st *RunStat) {
	type iv struct {
		t, i     int
		s, e     int64
		r, a     int
		m, kind  string
		executed bool
	}
	var ivs []iv
	n := len(s.Pool)
	for t := range s.Tasks {
		for i := range s.Tasks[t] {
			res := sim[t][i]
			if res.Status == StDropped {
				continue
			}
			op := &s.Tasks[t][i]
			r, a := objRoots(op, n)
			ivs = append(ivs, iv{t: t, i: i, s: res.Start, e: res.End, r: r, a: a, m: op.M, kind: kinds[t][i]})
		}
	}
	sort.Slice(ivs, func(i, j int) bool {
		if ivs[i].s != ivs[j].s {
			return ivs[i].s < ivs[j].s
		}
		if ivs[i].t != ivs[j].t {
			return ivs[i].t < ivs[j].t
		}
		return ivs[i].i < ivs[j].i
	})
	for x := 0; x < len(ivs); x++ {
		p := ivs[x]
		for y := x + 1; y < len(ivs) && ivs[y].s < p.e; y++ {
			q := ivs[y]
			if p.t == q.t {
				continue
			}
			if !(p.s < q.e && q.s < p.e) {
				continue
			}
			st.OverlapAny++
			shared := p.r == q.r || (p.a >= 0 && p.a == q.r) || (q.a >= 0 && q.a == p.r) || (p.a >= 0 && p.a == q.a)
			if !shared {
				continue
			}
			st.OverlapPairs++
			if p.r == q.r {
				ma, mb := p.m, q.m
				if mb < ma {
					ma, mb = mb, ma
				}
				st.Triples[p.kind+"|"+ma+"|"+mb]++
			}
		}
	}
}

// RunResult is everything a single run produced.
type RunResult struct {
	Stat       *RunStat
	Violations []Violation
	Infra      []string // harness problems (never verdicts)
	skip       [][]bool
	kinds      [][]string
}

func hashSpecWorkload(s *Spec) uint64 {
	h := fnv64s(0, fmt.Sprintf("%d/%d/%d", s.Seed, s.Worker, s.Run))
	for t := range s.Tasks {
		for i := range s.Tasks[t] {
			op := &s.Tasks[t][i]
			h = fnv64s(h, op.M)
			h = fnv64s(h, fmt.Sprint(op.R, op.A, op.Path, op.APath, op.Pt, op.Rect))
		}
	}
	for i := range s.Pool {
		h = fnv64s(h, s.Pool[i].Kind)
		h = fnv64s(h, fmt.Sprint(s.Pool[i].Shape, len(s.Pool[i].Children)))
	}
	return h
}

// runSpec performs the reference pass on a twin pool and the simulated pass on
// a fresh pool, and applies the oracles. If sched != nil the schedule is drawn
// after the reference pass (generation); otherwise s.Decisions is replayed.
func runSpec(s *Spec, sched func(soloSteps int64), rl *raceLog) *RunResult {
	rr := &RunResult{Stat: &RunStat{Methods: map[string]int{}, Kinds: map[string]int{}, Triples: map[string]int{}}}
	st := rr.Stat
	restore := applyKnobs(s.Knobs)
	defer restore()

	var bs buildStats
	twin := buildPool(s, &bs)
	solo, soloSteps, hps := soloPass(s, twin, soloOpBudget(s.Tier), nil)
	// operations that do not terminate normally even alone are left out
	skip := make([][]bool, len(s.Tasks))
	for t := range s.Tasks {
		skip[t] = make([]bool, len(s.Tasks[t]))
		for i := range s.Tasks[t] {
			if st := solo[t][i].Status; st == StPanic || st == StAborted || st == StExpensive {
				skip[t][i] = true
				if debugSolo {
					b, _ := json.Marshal(s.Tasks[t][i])
					fmt.Fprintf(os.Stderr, "solo-abnormal seed=%d w=%d run=%d status=%d op=%s res=%s\n", s.Seed, s.Worker, s.Run, st, b, trunc(solo[t][i].Res, 200))
				}
			}
		}
	}
	for _, hp := range hps {
		rr.Infra = append(rr.Infra, fmt.Sprintf("harness panic in solo pass task %d: %v", hp.task, hp.val))
	}
	st.SoloSteps = soloSteps
	if soloUnwound {
		// A call of the reference pass did not terminate and had to be unwound:
		// the run ends here and the worker restarts (see soloUnwound). One
		// question is still sound to ask, in a FRESH process: does that call
		// terminate when it is really alone? If it does not, the input itself
		// makes it hang (C05's business). If it does, the hang was caused by the
		// calls made before it - a call that "returns the same value it returns
		// when run alone" it is not.
		st.SoloUnwound = true
		st.Unwound = true
		for t := range s.Tasks {
			for i := range s.Tasks[t] {
				if solo[t][i].Status != StAborted || solo[t][i].End == 0 {
					continue
				}
				status, res := aloneStatusInFreshProcess(s, t, i, auditSites, os.TempDir())
				if status == StOK || status == StCBPanic || status == StGoexit {
					op := &s.Tasks[t][i]
					kind := recvKind(twin, op)
					rr.Violations = append(rr.Violations, Violation{
						Class: "abnormal", Key: "abnormal:" + op.M + ":" + kind + ":history-hang",
						Task: t, OpIndex: i, Method: op.M, Kind: kind,
						Detail: "the call does not return within the step budget after other calls were made before it on the same process state (sequential reference pass); alone, in a fresh process, it returns",
						Alone:  fmt.Sprintf("status=%d %s", status, res),
					})
				}
			}
		}
		return rr
	}
	if sched != nil {
		sched(soloSteps)
	}
	st.Decisions = len(s.Decisions)

	// receiver kinds, from the twin (never touch the simulated pool beforehand)
	kinds := make([][]string, len(s.Tasks))
	for t := range s.Tasks {
		kinds[t] = make([]string, len(s.Tasks[t]))
		for i := range s.Tasks[t] {
			k := recvKind(twin, &s.Tasks[t][i])
			kinds[t][i] = k
			st.Methods[s.Tasks[t][i].M]++
			st.Kinds[k]++
			st.Ops++
		}
	}

	progressBump()
	pool := buildPool(s, &bs)
	progressBump()
	st.BuildErrors = bs.errors
	budget := 10*soloSteps + 1_000_000
	before := rl.errors()
	sim, vst, hps2 := simPass(s, pool, skip, budget)
	after := rl.errors()
	for _, hp := range hps2 {
		rr.Infra = append(rr.Infra, fmt.Sprintf("harness panic in task %d: %v", hp.task, hp.val))
	}
	st.Steps = vst.Steps
	st.Switches = vst.Switches
	st.InFlightSw = vst.InFlightSw
	st.GCs = vst.GCs
	st.Consumed = vst.Consumed
	st.Stray = vst.Stray
	st.SoloRes, st.SimRes = solo, sim

	progressBump()
	rr.skip, rr.kinds = skip, kinds
	rr.Violations = compare(s, kinds, solo, sim, skip, vst.Deadlock, st)
	st.Blocked = vst.Blocked
	st.Deadlock = vst.Deadlock
	for t := range sim {
		for _, r := range sim[t] {
			if r.Status == StAborted {
				st.Unwound = true
			}
		}
	}
	if after > before {
		for _, v := range rl.collect() {
			rr.Violations = append(rr.Violations, v)
		}
	}
	if !s.Free {
		overlapStats(s, kinds, sim, st)
	}
	// results hash: part of the trace hash (determinism self-test)
	h := vst.Hash
	for t := range sim {
		for _, r := range sim[t] {
			h = fnv64(h, r.Res)
			h = fnv64(h, []byte{byte(r.Status)})
			st.CBCalls += r.CBCalls
			switch r.Status {
			case StCBPanic:
				st.CBPanic++
			case StGoexit:
				st.Goexit++
			}
		}
	}
	for t := range s.Tasks {
		for i := range s.Tasks[t] {
			op := &s.Tasks[t][i]
			r := sim[t][i]
			if op.CB != nil && r.Status != StDropped {
				if op.CB.CancelAt > 0 && r.CBCalls >= op.CB.CancelAt && r.Status == StOK {
					st.Cancel++
				}
				if op.CB.ReenterAt > 0 && r.CBCalls >= op.CB.ReenterAt {
					st.Reenter++
				}
			}
		}
	}
	st.TraceHash = h
	st.CaseHash = fnv64s(vst.Hash, fmt.Sprintf("%x", hashSpecWorkload(s)))
	st.Nontrivial = st.InFlightSw > 0 && st.OverlapPairs > 0

	// attribute value mismatches: what does the call return on a fresh pool, alone?
	for k := range rr.Violations {
		v := &rr.Violations[k]
		if (v.Class == "value" || v.Class == "abnormal") && !st.Unwound {
			v.Alone = aloneValue(s, v.Task, v.OpIndex)
		}
	}
	return rr
}

// aloneValue runs a single operation on a fresh pool with nothing else.
func aloneValue(s *Spec, t, i int) string {
	var bs buildStats
	pool := buildPool(s, &bs)
	res := &OpResult{Status: StDropped}
	done := make(chan struct{})
	go func() {
		defer close(done)
		defer func() { _ = recover() }()
		verifsim.SetMode(verifsim.ModeSolo, soloBudgetPerTask)
		x := &caller{pool: pool, task: t}
		x.run(res, &s.Tasks[t][i], 0)
	}()
	<-done
	verifsim.SetMode(verifsim.ModeOff, 0)
	return fmt.Sprintf("status=%d %s", res.Status, trunc(res.Res, 600))
}

// ---- history-independence audit --------------------------------------------
//
// The reference pass and the simulated pass share one process, so state the
// library keeps at package level (a value-keyed cache, an intern table) is
// populated by the first and only read by the second: both agree even if the
// state makes a call's answer depend on which other calls came before. The
// audit therefore repeats the reference pass in a FRESH PROCESS, on a fresh
// pool, with the task order reversed. Two sequential executions of the same
// legal calls that disagree mean that at least one call does not return "the
// value it returns when run alone".

// verifsimUncontrolledHint is non-empty when simctl found constructs in the
// library that the scheduler cannot own ($GEOSIM_UNCONTROLLED): an audit
// subprocess that had to be killed is then not an infrastructure error.
var verifsimUncontrolledHint = os.Getenv("GEOSIM_UNCONTROLLED")

// AuditRes is one operation outcome as printed by `simworker audit`.
type AuditRes struct {
	S int    `json:"s"`
	R []byte `json:"r"`
	L uint64 `json:"l"`
}

func cmdAudit(args []string) int {
	fs := flag.NewFlagSet("audit", flag.ExitOnError)
	in := fs.String("in", "", "spec file")
	nsites := fs.Int("sites", 4096, "number of yield sites")
	_ = fs.Parse(args)
	var rf ReplayFile
	if err := readJSONFile(*in, &rf); err != nil {
		fmt.Fprintln(os.Stderr, "simworker audit:", err)
		return 2
	}
	verifsim.SetSites(*nsites)
	s := &rf.Spec
	restore := applyKnobs(s.Knobs)
	defer restore()
	var bs buildStats
	pool := buildPool(s, &bs)
	order := make([]int, 0, len(s.Tasks))
	for t := len(s.Tasks) - 1; t >= 0; t-- {
		order = append(order, t)
	}
	res, _, _ := soloPass(s, pool, soloOpBudget(s.Tier), order)
	out := make([][]AuditRes, len(res))
	for t := range res {
		out[t] = make([]AuditRes, len(res[t]))
		for i, r := range res[t] {
			out[t][i] = AuditRes{S: r.Status, R: r.Res, L: r.Late}
		}
	}
	b, _ := json.Marshal(out)
	os.Stdout.Write(b)
	return 0
}

// auditHistory runs the audit subprocess for s and compares with the
// reference pass of this process.
func auditHistory(s *Spec, rr *RunResult, nsites int, tmpDir string) ([]Violation, error) {
	p := filepath.Join(tmpDir, fmt.Sprintf("audit-%d-%d-%d.json", os.Getpid(), s.Worker, s.Run))
	if err := writeJSONFile(p, &ReplayFile{Property: "C16", Spec: *s}); err != nil {
		return nil, err
	}
	defer os.Remove(p)
	cmd := exec.Command(os.Args[0], "audit", "-in", p, "-sites", fmt.Sprint(nsites))
	cmd.Env = append(filterEnv(os.Environ(), "GORACE"), "GORACE=halt_on_error=0 exitcode=0 atexit_sleep_ms=0")
	externalBegin()
	timer := time.AfterFunc(3*time.Minute, func() {
		if cmd.Process != nil {
			_ = cmd.Process.Kill()
		}
	})
	outb, err := cmd.Output()
	timer.Stop()
	externalEnd()
	if err != nil {
		if len(verifsimUncontrolledHint) > 0 {
			return nil, nil
		}
		return nil, fmt.Errorf("audit subprocess: %v", err)
	}
	var other [][]AuditRes
	if err := json.Unmarshal(outb, &other); err != nil {
		return nil, fmt.Errorf("audit output: %v", err)
	}
	solo := rr.Stat.SoloRes
	var vs []Violation
	for t := range s.Tasks {
		if t >= len(other) || t >= len(solo) {
			break
		}
		for i := range s.Tasks[t] {
			if i >= len(other[t]) || rr.skip[t][i] {
				continue
			}
			a, b := solo[t][i], other[t][i]
			if b.S == StPanic || b.S == StAborted || b.S == StExpensive {
				// did not terminate normally, or was merely expensive, in the other
				// execution: step counts may legitimately depend on history (a cache)
				continue
			}
			if a.Status == b.S && bytes.Equal(a.Res, b.R) && a.Late == b.L {
				continue
			}
			op := &s.Tasks[t][i]
			kind := rr.kinds[t][i]
			vs = append(vs, Violation{
				Class: "value", Key: "value:" + op.M + ":" + kind + ":history",
				Task: t, OpIndex: i, Method: op.M, Kind: kind,
				Detail: "the call returns different values in two sequential executions of the same calls on identically built objects (this process: tasks in order; a fresh process: tasks in reverse order): its answer depends on which other calls were made before, so it is not the value it returns when run alone",
				Got:    trunc(b.R, 600), Want: trunc(a.Res, 600),
				Alone: aloneInFreshProcess(s, t, i, nsites, tmpDir),
			})
		}
	}
	return vs, nil
}

// auditSites is the number of yield sites (set by the subcommands).
var auditSites = 4096

// aloneStatusInFreshProcess is aloneInFreshProcess returning the status too
// (-1: could not be determined).
func aloneStatusInFreshProcess(s *Spec, t, i int, nsites int, tmpDir string) (int, string) {
	out := aloneInFreshProcess(s, t, i, nsites, tmpDir)
	var st int
	if n, _ := fmt.Sscanf(out, "status=%d", &st); n != 1 {
		return -1, out
	}
	if k := strings.Index(out, " "); k > 0 {
		return st, out[k+1:]
	}
	return st, ""
}

// aloneInFreshProcess: the single call, in its own process, on a fresh pool.
func aloneInFreshProcess(s *Spec, t, i int, nsites int, tmpDir string) string {
	c := cloneSpec(s)
	c.Tasks = [][]Op{{s.Tasks[t][i]}}
	c.Order = []int32{0}
	c.Decisions = nil
	p := filepath.Join(tmpDir, fmt.Sprintf("alone-%d-%d-%d.json", os.Getpid(), s.Worker, s.Run))
	if err := writeJSONFile(p, &ReplayFile{Property: "C16", Spec: *c}); err != nil {
		return ""
	}
	defer os.Remove(p)
	cmd := exec.Command(os.Args[0], "audit", "-in", p, "-sites", fmt.Sprint(nsites))
	cmd.Env = append(filterEnv(os.Environ(), "GORACE"), "GORACE=halt_on_error=0 exitcode=0 atexit_sleep_ms=0")
	externalBegin()
	outb, err := cmd.Output()
	externalEnd()
	if err != nil {
		return ""
	}
	var other [][]AuditRes
	if json.Unmarshal(outb, &other) != nil || len(other) == 0 || len(other[0]) == 0 {
		return ""
	}
	return fmt.Sprintf("status=%d %s", other[0][0].S, trunc(other[0][0].R, 600))
}
