package main

import (
	"encoding/json"
	"os"

	"github.com/tidwall/geojson/verifsim"
)

// A Spec is one complete simulated run: configuration knobs, the shared pool,
// the per-task operation lists, the schedule and the injected faults. It is
// pure data: the replay file is a Spec plus the violation it produced.
type Spec struct {
	Version  int    `json:"version"`
	Seed     uint64 `json:"seed"`
	Worker   int    `json:"worker"`
	Run      int    `json:"run"`
	Tier     string `json:"tier"`
	Strategy string `json:"strategy"`
	Free     bool   `json:"free,omitempty"` // uncontrolled fallback mode
	// Siblings: the pool contains objects with equal geometry and different
	// configuration (audited in a fresh process more often).
	Siblings bool `json:"siblings,omitempty"`

	Knobs     Knobs               `json:"knobs"`
	Pool      []Recipe            `json:"pool"`
	Tasks     [][]Op              `json:"tasks"`
	Order     []int32             `json:"order"`
	Decisions []verifsim.Decision `json:"decisions"`
	// SoloSteps is informational (total yield points of the reference pass).
	SoloSteps int64 `json:"solo_steps,omitempty"`
}

// Knobs are the package-level configuration variables of the library that a
// user may set before building objects.
type Knobs struct {
	Set      bool      `json:"set"`
	IdxKind  int       `json:"idx_kind"`
	IdxMin   int       `json:"idx_min"`
	DefParse ParseOpts `json:"def_parse"`
}

type ParseOpts struct {
	IndexChildren     int  `json:"ic"`
	IndexGeometry     int  `json:"ig"`
	IndexGeometryKind int  `json:"igk"`
	RequireValid      bool `json:"rv,omitempty"`
	AllowSimplePoints bool `json:"sp,omitempty"`
	DisableCircleType bool `json:"dc,omitempty"`
	AllowRects        bool `json:"ar,omitempty"`
}

// Shape parameters; geometry is generated deterministically from them.
type Shape struct {
	Cx      float64 `json:"cx"`
	Cy      float64 `json:"cy"`
	R       float64 `json:"r"`
	N       int     `json:"n"`
	Jag     float64 `json:"jag,omitempty"`
	Holes   int     `json:"holes,omitempty"`
	Seed    uint64  `json:"seed,omitempty"`
	Lattice bool    `json:"lattice,omitempty"`
	Meters  float64 `json:"meters,omitempty"`
	Steps   int     `json:"steps,omitempty"`
	Units   string  `json:"units,omitempty"`
}

// Recipe builds one object, by Parse ("parse") or by constructors ("ctor").
type Recipe struct {
	Via     string    `json:"via"`
	Kind    string    `json:"kind"`
	Shape   Shape     `json:"shape"`
	Opts    ParseOpts `json:"opts"`
	Dims    int       `json:"dims,omitempty"`
	Members string    `json:"members,omitempty"`
	// Style of the GeoJSON text handed to Parse (top-level recipe only):
	// 0 compact, 1 whitespace everywhere, 2 "type" member last, 3 numbers in
	// exponent notation, 4 = 1+2+3. The parsed value is the same in all styles.
	Style    int      `json:"style,omitempty"`
	Children []Recipe `json:"children,omitempty"`
	// Refs (Via == "share"): indices of EARLIER pool objects that this object
	// wraps without copying (a child shared by two parents, as Tile38 does).
	Refs []int `json:"refs,omitempty"`
}

// CB is the behaviour of the caller-supplied callback of an operation.
// k-th invocation counts from 1; 0 means never.
type CB struct {
	CancelAt  int `json:"cancel,omitempty"`
	PanicAt   int `json:"panic,omitempty"`
	GoexitAt  int `json:"goexit,omitempty"`
	ReenterAt int `json:"reenter_at,omitempty"`
	Reenter   *Op `json:"reenter,omitempty"`
}

// Op is one method call, as data.
type Op struct {
	M      string     `json:"m"`
	R      int        `json:"r"`
	Path   []int      `json:"path,omitempty"`
	A      int        `json:"a"`
	APath  []int      `json:"apath,omitempty"`
	Rect   [4]float64 `json:"rect"`
	Pt     [2]float64 `json:"pt"`
	I      int        `json:"i,omitempty"`
	Ring   int        `json:"ring,omitempty"`
	Prefix string     `json:"prefix,omitempty"`
	Cap    int        `json:"cap,omitempty"`
	// Reuse: AppendJSON into the caller's own long-lived buffer
	// (buf = o.AppendJSON(buf[:0]), the standard idiom; the first call passes nil).
	// Scribble: the caller overwrites the bytes it was given once it has read them.
	// Both are legal: the returned slice is the caller's memory.
	Reuse    bool `json:"reuse,omitempty"`
	Scribble bool `json:"scribble,omitempty"`
	CB       *CB  `json:"cb,omitempty"`
}

// Violation describes what a run found.
type Violation struct {
	Class   string `json:"class"` // race | value | abnormal
	Key     string `json:"key"`   // stable identity used for minimisation and known-findings
	Detail  string `json:"detail"`
	Task    int    `json:"task,omitempty"`
	OpIndex int    `json:"op_index,omitempty"`
	Method  string `json:"method,omitempty"`
	Kind    string `json:"kind,omitempty"`
	Got     string `json:"got,omitempty"`
	Want    string `json:"want,omitempty"`
	Alone   string `json:"alone,omitempty"`
	Report  string `json:"report,omitempty"` // race report text
}

// ReplayFile is what is written under /verif/replays.
type ReplayFile struct {
	Property   string      `json:"property"`
	Toolchain  string      `json:"toolchain"`
	Controlled bool        `json:"controlled"`
	Minimised  bool        `json:"minimised"`
	Flaky      bool        `json:"flaky,omitempty"` // reproduces only in some executions (library-internal nondeterminism)
	TraceHash  string      `json:"trace_hash"`
	Violations []Violation `json:"violations"`
	Spec       Spec        `json:"spec"`
	Note       string      `json:"note,omitempty"`
}

func readJSONFile(path string, v interface{}) error {
	b, err := os.ReadFile(path)
	if err != nil {
		return err
	}
	return json.Unmarshal(b, v)
}

func writeJSONFile(path string, v interface{}) error {
	b, err := json.MarshalIndent(v, "", " ")
	if err != nil {
		return err
	}
	return os.WriteFile(path, append(b, '\n'), 0o644)
}

func cloneSpec(s *Spec) *Spec {
	b, _ := json.Marshal(s)
	var c Spec
	_ = json.Unmarshal(b, &c)
	return &c
}
